#!/bin/sh
# Build the harness from files on disk only (offline) and syntax-check the specifications.
set -e
cd "$(dirname "$0")"
exec python3 ./check --setup
