#!/bin/bash
# run_some.sh <tier> <ids...>
tier=$1; shift
cd "$(dirname "$0")/.."
for p in "$@"; do
  s=$(date +%s)
  out=$(./check $p --tier $tier 2>&1); rc=$?
  e=$(date +%s)
  echo "$p tier=$tier exit=$rc $((e-s))s $(echo "$out" | grep -c '^VIOLATION') violations $(echo "$out" | grep '^INCONCLUSIVE' | cut -c1-300)"
done
