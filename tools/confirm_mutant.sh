#!/bin/bash
# confirm_mutant.sh <worktree> <mutant dir (contains patch.diff, demo_test.go)> -> prints CONFIRMED or reason
# Confirms in the scratch worktree: compiles, full suite passes with the change, demo fails with it and passes without.
set -u
WT=$1; M=$2
export GOFLAGS=-mod=mod GOPROXY=off
cd "$WT" || exit 2
git checkout -q -- . ; rm -f demo_test.go
STASH=$(mktemp -d /tmp/mutout.XXXX)
# keep out/ away from ./...
if [ -d out ]; then mv out "$STASH/out"; M=${M/$WT\/out/$STASH/out}; fi
restore() { cd "$WT"; git checkout -q -- . ; rm -f demo_test.go; [ -d "$STASH/out" ] && mv "$STASH/out" out; rmdir "$STASH" 2>/dev/null; }
trap restore EXIT
cp "$M/demo_test.go" demo_test.go
go test -vet=off -count=1 -run 'TestDemo_' . > /tmp/demo_orig.$$ 2>&1; O=$?
if [ $O -ne 0 ]; then echo "REJECT: demo fails on original"; tail -5 /tmp/demo_orig.$$; exit 1; fi
git apply "$M/patch.diff" || { echo "REJECT: patch does not apply"; exit 1; }
go build ./... || { echo "REJECT: does not compile"; exit 1; }
go test -vet=off -count=1 -run 'TestDemo_' . > /tmp/demo_mut.$$ 2>&1; D=$?
if [ $D -eq 0 ]; then echo "REJECT: demo passes with the change"; exit 1; fi
rm -f demo_test.go
go test -vet=off -count=1 -timeout 25m ./... > /tmp/suite.$$ 2>&1; S=$?
if [ $S -ne 0 ]; then echo "REJECT: suite fails with the change"; grep -m5 -- "--- FAIL\|FAIL" /tmp/suite.$$; exit 1; fi
echo "CONFIRMED: compiles, suite ok, demo fails with change / passes without"
rm -f /tmp/demo_orig.$$ /tmp/demo_mut.$$ /tmp/suite.$$
