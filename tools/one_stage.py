#!/usr/bin/env python3
# one_stage.py <property> "<python expression using rep and engines>" : development aid - runs ONE stage of a check (evidence goes to a
# scratch directory).  Example: tools/one_stage.py C07 'engines.many_types_family(rep, "c07", "NestedTrace_C07.cfg", "x")'
import os, sys, tempfile
sys.path.insert(0, os.path.join(os.path.dirname(os.path.abspath(__file__)), ".."))
os.environ.setdefault("VERIF_EVIDENCE_DIR", tempfile.mkdtemp(prefix="one-stage-ev-"))
os.environ.setdefault("VERIF_REPLAYS_DIR", tempfile.mkdtemp(prefix="one-stage-rp-"))
import vlib, engines
rep = engines.Report(sys.argv[1], os.environ.get("VERIF_TIER", "quick"), int(os.environ.get("VERIF_SEED", "1")))
if hasattr(engines, "build_harness"):
    pass
eval(sys.argv[2])
for v in rep.violations:
    print("VIOLATION", v["what"], v["replay"])
print("stages:", {k: {kk: vv for kk, vv in s.items() if kk in ("traces", "accepted", "rejected", "events")} for k, s in rep.stages.items()})
