#!/bin/bash
# run_all.sh [tier] : run every claimed check once, print id, exit code, wall seconds
tier=${1:-quick}
cd /verif
for p in $(python3 -c "import json;print(' '.join(c['property_id'] for c in json.load(open('MANIFEST.json'))['checks']))"); do
  s=$(date +%s)
  out=$(./check $p --tier $tier 2>&1); rc=$?
  e=$(date +%s)
  echo "$p exit=$rc $((e-s))s $(echo "$out" | grep -c '^VIOLATION') violations $(echo "$out" | grep '^INCONCLUSIVE' | cut -c1-150)"
done
