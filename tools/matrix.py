#!/usr/bin/env python3
# matrix.py [-j N] [-tier quick] [-checks C01,C02 | -own] <mutant ids or 'all'> : run checks against seeded changes in scratch
# worktrees of /repo (never in /repo itself), in parallel; evidence / replays of those runs go to a scratch directory.
# Output: one line per (mutant, check): exit code, violation count; summary JSON in /tmp/matrix/result.json
import argparse, concurrent.futures, json, os, shutil, subprocess, sys, time
ap = argparse.ArgumentParser()
ap.add_argument("-j", type=int, default=3)
ap.add_argument("-tier", default="quick")
ap.add_argument("-checks", default="")
ap.add_argument("-seed", default="1")
ap.add_argument("-snap", default="", help="suffix of the snapshot directory (to run two matrices at once)")
ap.add_argument("-first", action="store_true", help="only the first check listed in detected_by (else the property's own check)")
ap.add_argument("ids", nargs="+")
a = ap.parse_args()
os.makedirs("/tmp/matrix", exist_ok=True)
# the checks run from a snapshot of the committed /verif, so that edits made meanwhile do not disturb them
V = "/tmp/matrix/verif-snap" + a.snap
subprocess.run(["git", "-C", "/verif", "worktree", "remove", "--force", V], capture_output=True)
subprocess.run(["git", "-C", "/verif", "worktree", "add", "--detach", V, "HEAD"], check=True, capture_output=True)
ids = a.ids
if a.ids == ["all"]:      # changes recorded as outside the contract boundary are not detection targets
    ids = [m for m in sorted(os.listdir(V + "/seeded")) if not json.load(open(os.path.join(V, "seeded", m, "meta.json"))).get("out_of_contract")]

def run(mid):
    d = os.path.join(V, "seeded", mid)
    meta = json.load(open(os.path.join(d, "meta.json")))
    checks = a.checks.split(",") if a.checks else sorted(set([meta["breaks_property"]] + meta.get("detected_by", [])))
    if a.first and not a.checks:
        checks = (meta.get("detected_by") or [meta["breaks_property"]])[:1]
    wt = "/tmp/matrix/wt%s-" % a.snap + mid
    subprocess.run(["git", "-C", "/repo", "worktree", "remove", "--force", wt], capture_output=True)
    p = subprocess.run(["git", "-C", "/repo", "worktree", "add", "--detach", wt, "HEAD"], capture_output=True, text=True)
    if p.returncode != 0:
        return mid, {"error": p.stderr}
    out = {}
    try:
        p = subprocess.run(["git", "-C", wt, "apply", os.path.join(d, "patch.diff")], capture_output=True, text=True)
        if p.returncode != 0:
            return mid, {"error": "patch failed: " + p.stderr}
        for c in checks:
            env = dict(os.environ, VERIF_REPO=wt, VERIF_EVIDENCE_DIR="/tmp/matrix/ev%s-" % a.snap + mid, VERIF_REPLAYS_DIR="/tmp/matrix/rp%s-" % a.snap + mid,
                       VERIF_SEED=a.seed)
            t0 = time.time()
            p = subprocess.run([V + "/check", c, "--tier", a.tier], capture_output=True, text=True, env=env, cwd=V)
            viol = [l for l in p.stdout.split("\n") if l.startswith("VIOLATION")]
            what = [l.strip() for l in p.stderr.split("\n") if l.startswith("  ") and "rejected" in l][:2]
            out[c] = {"exit": p.returncode, "violations": len(viol), "wall": round(time.time() - t0), "what": what,
                      "tail": p.stderr[-600:] if p.returncode == 2 else ""}
            print("%s %s exit=%d viol=%d %ds %s" % (mid, c, p.returncode, len(viol), time.time() - t0, what[:1]), flush=True)
    finally:
        subprocess.run(["git", "-C", "/repo", "worktree", "remove", "--force", wt], capture_output=True)
        shutil.rmtree("/tmp/matrix/ev%s-" % a.snap + mid, ignore_errors=True)
        shutil.rmtree("/tmp/matrix/rp%s-" % a.snap + mid, ignore_errors=True)
    return mid, out

res = {}
with concurrent.futures.ThreadPoolExecutor(max_workers=a.j) as ex:
    for mid, out in ex.map(run, ids):
        res[mid] = out
json.dump(res, open("/tmp/matrix/result-%s%s.json" % (a.tier, a.snap), "w"), indent=1)
missed = [m for m, o in res.items() if not any(isinstance(v, dict) and v.get("exit") == 1 for v in o.values())]
print("MISSED:", " ".join(missed))
