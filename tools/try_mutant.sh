#!/bin/bash
# try_mutant.sh <patch.diff> <property> [<property>...]: apply to /repo, run quick checks, undo.
P=$1; shift
cd /verif
git -C /repo diff --quiet || { echo "repo dirty"; exit 2; }
git -C /repo apply "$P" || { echo "patch failed"; exit 2; }
for prop in "$@"; do
  out=$(./check $prop 2>&1); rc=$?
  echo "[$prop] exit=$rc $(echo "$out" | grep -c '^VIOLATION') violation line(s)"
  echo "$out" | grep -A1 '^VIOLATION' | head -4
  [ $rc -eq 2 ] && echo "$out" | tail -5
done
git -C /repo checkout -- .
