#!/usr/bin/env python3
# keep_mutant.py <name> <property> <mutant dir> <needs> <detected-by (comma list or "none")> : store under /verif/seeded/<name>/
import json, os, shutil, sys
name, prop, src, needs, det = sys.argv[1:6]
d = os.path.join("/verif/seeded", name)
os.makedirs(d, exist_ok=True)
shutil.copy(os.path.join(src, "patch.diff"), os.path.join(d, "patch.diff"))
shutil.copy(os.path.join(src, "demo_test.go"), os.path.join(d, "demo_test.go.txt"))
if os.path.exists(os.path.join(src, "notes.md")):
    shutil.copy(os.path.join(src, "notes.md"), os.path.join(d, "notes.md"))
meta = {"breaks_property": prop, "needs_to_manifest": needs,
        "source": "independent sub-agent given only the property text and a scratch worktree",
        "confirmed": "tools/confirm_mutant.sh in a scratch worktree: compiles; full existing suite passes with the change; demo fails with it and passes without",
        "ran": "tools/try_mutant.sh seeded/%s/patch.diff <checks>" % name,
        "detected_by": [] if det == "none" else det.split(",")}
json.dump(meta, open(os.path.join(d, "meta.json"), "w"), indent=1)
print("kept", d)
