#!/usr/bin/env python3
# show_trace.py <trace.ndjson> <record number (1-based)> [context]: print events around a record and its forests
import json, sys
f, n = sys.argv[1], int(sys.argv[2])
ctx = int(sys.argv[3]) if len(sys.argv) > 3 else 8
L = [json.loads(x) for x in open(f) if x.strip()]
def show(a):
    return [(x['c'], x['v'], show(x['sub'])) if x['sub'] else (x['c'] + (str(x['w']) if x['w'] else ''), x['v']) for x in a]
def elems(es):
    return [(e['c'], e['sz'], e['v'], e['w']) for e in es]
def mels(E, ind):
    print(' ' * ind, 'els', E['t'], 'lvl', E['lvl'], 'sz', E['sz'], 'hk', E['hk'])
    for x in E['el']:
        if x['t'] == 's':
            print(' ' * (ind + 2), 's sz', x['sz'], 'k', elems(x['k']), 'v', elems(x['v']))
            for e in x['k'] + x['v']:
                for c in e['ch']: node(c, ind + 6)
        elif x['t'] == 'g':
            print(' ' * (ind + 2), 'group sz', x['sz']); mels(x['els'][0], ind + 4)
        else:
            print(' ' * (ind + 2), 'xgroup sz', x['sz']); node(x['x'][0], ind + 4)
def node(n, ind=0):
    print(' ' * ind, n['k'], 'id', n['id'], 'sz', n['sz'], 'cnt', n['cnt'], 'nxt', n['nxt'], 'inl', n['inl'], 'root', n['root'], 'fk', n['fk'], elems(n['e']), [(h['id'], h['sz'], h['cnt'], h['sum'], h['fk']) for h in n['h']])
    for e in n['e']:
        for c in e['ch']: node(c, ind + 4)
    for E in n['els']: mels(E, ind + 2)
    for c in n['c']: node(c, ind + 2)
for i in range(max(0, n - ctx), min(len(L), n + 1)):
    r = L[i]
    print(i + 1, 't', r['t'], r['ev'], r.get('op'), r['h'], 'hv', r.get('hv'), 'i', r['i'], 'k', r['k']['id'], {k: v for k, v in r['e'].items() if v}, 'keep', r.get('keep'), '->', r['res']['class'], r['res']['v'], r['res']['vc'], r['res'].get('seq'))
r = L[n - 1]
print('cfg', r['cfg'], 'st', r['st'])
for x in r['roots']:
    print('ROOT', x['name'], x['rid'], 'n', x['n'], show(x['abs']))
    node(x['F'][0], 2)
