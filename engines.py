# Engines and per-property checks.  See DESIGN.md for the oracle of each property.
import concurrent.futures, hashlib, json, os, random, re, shutil, subprocess, sys, time
import vlib
from vlib import Inconclusive, log, NCPU

PARTS = max(2, NCPU - 2)


class Report:
    def __init__(self, prop, tier, seed):
        self.prop, self.tier, self.seed = prop, tier, seed
        self.states = 0
        self.transitions = 0
        self.models = []
        self.traces = 0
        self.records = 0
        self.evaluations = 0
        self.distinct = set()
        self.samples = []
        self.violations = []
        self.known = []
        self.deferred = []     # histories left unjudged because the harness itself failed on them (exit 2 unless a violation is found elsewhere)
        self.notes = []
        self.assumptions = []
        self.stages = {}
        self.exhaustive = True
        self.level = "model_checking"
        self.rule = ""

    def note(self, s):
        self.notes.append(s)

    def add_model(self, name, r):
        self.states += r.distinct
        self.transitions += r.generated
        self.models.append({"config": name, "distinct_states": r.distinct, "transitions": r.generated,
                            "depth": r.depth, "wall_s": round(r.wall, 1)})

    def sample(self, s):
        if len(self.samples) < 6:
            self.samples.append(s)

    def write(self, wall):
        cov = {
            "states": self.states, "transitions": self.transitions,
            "traces_validated_against_impl": self.traces,
            "trace_records_validated": self.records,
            "evaluations": max(self.evaluations, self.traces),
            "distinct_nontrivial": len(self.distinct),
            "rule": self.rule,
            "samples": self.samples or ["(no sample: run was inconclusive)"],
            "models": self.models, "stages": self.stages, "notes": self.notes,
            "exhaustive": self.exhaustive,
            "known_findings_seen": self.known,
        }
        vlib.write_evidence(self.prop, self.tier, self.seed, self.level, cov, wall, len(self.violations), self.assumptions)


def setup():
    """Build the harness once (offline) and parse every specification with SANY."""
    vlib.build_harness()
    d = vlib.tlc_dir("sany")
    bad = 0
    for f in sorted(os.listdir(d)):
        if not f.endswith(".tla"):
            continue
        p = subprocess.run(["java", "-cp", vlib.JAR, "tla2sany.SANY", f], cwd=d, capture_output=True, text=True)
        if p.returncode != 0 or "Semantic errors" in p.stdout or "Fatal errors" in p.stdout or "Parse Error" in p.stdout:
            bad += 1
            print("SANY FAILED: " + f + "\n" + p.stdout[-1500:])
    print("setup: harness built, %d spec modules parsed, %d failures" % (len([f for f in os.listdir(d) if f.endswith('.tla')]), bad))
    return 1 if bad else 0


# ---------------------------------------------------------------------------
# generic: run harness over parts, validate parts

def run_parts(cmd_prefix, in_files, name, extra=None, timeout=3600):
    """Run the harness once per input part (parallel); returns (trace files, summaries)."""
    exe = vlib.build_harness()
    outs, procs = [], []
    for k, f in enumerate(in_files):
        out = os.path.join(vlib.scratch(), "%s-trace-%d.ndjson" % (name, k))
        outs.append(out)
        procs.append(subprocess.Popen([exe] + cmd_prefix + ["-in", f, "-out", out] + (extra or []),
                                      stdout=subprocess.PIPE, stderr=subprocess.PIPE, text=True))
    sums = []
    for k, p in enumerate(procs):
        try:
            so, se = p.communicate(timeout=timeout)
        except subprocess.TimeoutExpired:
            p.kill()
            raise Inconclusive("harness timeout")
        if p.returncode != 0:
            raise HarnessCrash(cmd_prefix + (extra or []), in_files[k], p.returncode, so[-1500:] + se[-3000:])
        sums.append(vlib.last_json(so))
    return outs, sums


class HarnessCrash(Inconclusive):
    """The harness process died while executing a part (fatal runtime error inside the library, e.g. stack overflow)."""
    def __init__(self, cmd, part, rc, tail):
        Inconclusive.__init__(self, "harness failed (%d): %s" % (rc, tail))
        self.cmd, self.part, self.rc, self.tail = cmd, part, rc, tail


def isolate_crash(rep, hc, stage, prefix_check=None):
    """Find the history that kills the harness by running the part's histories one per process; a history that
    reproducibly crashes a fresh process is a behaviour of the real code (the library took the process down).
    When the panic is raised by the harness's own bookkeeping (e.g. a handle it no longer knows), the longest prefix of the
    history that still executes is validated on its own (prefix_check): if the specification rejects it, the real code had
    already diverged from the model before the harness lost track - that rejection is the verdict.  Otherwise the history is
    left unjudged (rep.deferred: the check ends inconclusive unless a violation is found elsewhere)."""
    exe = vlib.build_harness()
    with open(hc.part) as f:
        lines = f.read().split("\n")
    hdr, hists = lines[0], [x for x in lines[1:] if x.strip()]
    d = os.path.join(vlib.scratch(), "crash-%d" % random.randrange(1 << 30))
    os.makedirs(d)
    for i, h in enumerate(hists[:400]):
        hf = os.path.join(d, "one.ndjson")
        open(hf, "w").write(hdr + "\n" + h + "\n")
        ok = True
        for attempt in range(2):
            try:
                p = subprocess.run([exe] + hc.cmd + ["-in", hf, "-out", os.path.join(d, "o.ndjson")], capture_output=True, text=True, timeout=120)
                crashed = p.returncode != 0
                tail = (p.stdout[-300:] + p.stderr[:2500])
            except subprocess.TimeoutExpired:
                crashed, tail = True, "timeout (no termination within 120 s)"
            if not crashed:
                ok = False
                break
        if ok:
            # whose panic is it?  The first frame of the panicking goroutine that is not the Go runtime decides: a frame of the
            # harness itself (main.*) with no library frame above it is a defect of the HARNESS (never a verdict)
            frames = [x.split("(")[0].strip() for x in tail.split("\n") if re.match(r"^(main\.|github\.com/onflow/atree)", x.strip())]
            if frames and frames[0].startswith("main.") and "fatal error: stack overflow" not in tail and "library call failed:" not in tail:
                ops = json.loads(h)
                if prefix_check is not None and len(ops) > 2:
                    lo, hi, best = 1, len(ops) - 1, 0
                    while lo <= hi:           # dying is monotone in the prefix length
                        mid = (lo + hi) // 2
                        open(hf, "w").write(hdr + "\n" + json.dumps(ops[:mid]) + "\n")
                        try:
                            dies = subprocess.run([exe] + hc.cmd + ["-in", hf, "-out", os.path.join(d, "o.ndjson")], capture_output=True, text=True, timeout=120).returncode != 0
                        except subprocess.TimeoutExpired:
                            dies = True
                        if dies:
                            hi = mid - 1
                        else:
                            best, lo = mid, mid + 1
                    if best >= 2 and prefix_check(hdr, ops[:best]):
                        return True
                rep.deferred.append("stage %s: the harness itself panicked (defect of the machinery, not a verdict): %s" % (stage, tail[:600]))
                log("UNJUDGED history in stage %s (harness panic): %s" % (stage, tail[:300].replace("\n", " | ")))
                return True
            sig = "crash:%s" % hc.cmd[0]
            first = [x for x in tail.split("\n") if x.startswith("fatal error") or x.startswith("panic") or "timeout" in x]
            what = "the library takes the process down (%s) while executing a valid history of %d ops" % (first[0] if first else "fatal runtime error", len(json.loads(h)))
            payload = {"property": rep.prop, "stage": stage, "engine": "crash", "cmd": hc.cmd, "cfg": json.loads(hdr).get("cfg"),
                       "history": json.loads(h), "signature": sig, "output_tail": tail[-1500:]}
            k = vlib.known_match(rep.prop, sig)
            if k:
                rep.known.append("%s [%s]" % (k.get("what", sig), sig))
            else:
                rep.violations.append({"signature": sig, "what": what, "replay": vlib.write_replay(rep.prop, payload)})
            return True
    return False


def crash_replay(payload):
    exe = vlib.build_harness()
    d = os.path.join(vlib.scratch(), "replay-%d" % random.randrange(1 << 30))
    os.makedirs(d)
    hf = os.path.join(d, "one.ndjson")
    open(hf, "w").write(json.dumps({"cfg": payload["cfg"]}) + "\n" + json.dumps(payload["history"]) + "\n")
    try:
        p = subprocess.run([exe] + payload["cmd"] + ["-in", hf, "-out", os.path.join(d, "o.ndjson")], capture_output=True, text=True, timeout=120)
        return p.returncode != 0
    except subprocess.TimeoutExpired:
        return True


def handle_results(rep, results, module, cfg, describe, confirm, stage):
    """Turn rejected traces into violations / known findings.
    describe(result, record, trace_records) -> (signature, what, replay_payload)
    confirm(replay_payload) -> True when the rejection reproduces in a fresh process."""
    nrec = 0
    for res in results:
        if "error" in res:
            raise Inconclusive(res["error"])
        nrec += res["records"]
    rep.records += nrec
    seen, tried = set(), {}
    for res in results:
        if res["ok"]:
            continue
        idx = res.get("record")
        if idx is None:
            raise Inconclusive("rejection without a position: %s" % res)
        recs = vlib.read_records(res["dir"], idx, idx)
        if not recs:
            raise Inconclusive("rejected record %d not found in %s" % (idx, res["dir"]))
        rec = recs[0]
        trace = vlib.trace_of(res["dir"], rec["t"])
        why = res["invariant"] or "action"
        sig, what, payload = describe(res, rec, trace, why)
        if sig in seen or tried.get(sig, 0) >= 3:
            continue
        tried[sig] = tried.get(sig, 0) + 1
        payload.update({"property": rep.prop, "stage": stage, "trace_module": module, "trace_cfg": cfg,
                        "rejected_by": why, "rejected_record": rec, "signature": sig})
        if not confirm(payload):
            # not a verdict: left unjudged (the check ends inconclusive unless a reproducible violation is found elsewhere)
            rep.deferred.append("stage %s: rejection did not reproduce in a fresh process (flaky harness?): %s" % (stage, what))
            log("UNJUDGED: rejection did not reproduce in a fresh process: %s" % what)
            continue
        seen.add(sig)
        k = vlib.known_match(rep.prop, sig)
        if k:
            rep.known.append("%s [%s]" % (k.get("what", sig), sig))
            continue
        path = vlib.write_replay(rep.prop, payload)
        rep.violations.append({"signature": sig, "what": what, "replay": path})
    return nrec


# ---------------------------------------------------------------------------
# storage engine (SlabStorage.tla / SlabStorageTrace.tla)

ST_CFG = {3: {"nids": 3, "owner": [1, 1, 0], "index": [1, 2, 1], "nvers": 2},
          4: {"nids": 4, "owner": [1, 1, 2, 0], "index": [1, 2, 1, 1], "nvers": 2}}


def storage_histories(rep, nids, keep, name, max_hist=None, one_in=1):
    """Model-check SlabStorage over nids identifiers with edge emission; write the histories
    selected by keep(ops, key) into PARTS part files.  Returns (part files, count, total)."""
    return model_histories(rep, "MC_SlabStorage.tla", "MC_SlabStorage_q.cfg", {"EmitEdges": "TRUE", "NIds": nids},
                           "MC_SlabStorage NIds=%d Versions={1,2} MaxFaults=1 (closure)" % nids,
                           {"cfg": ST_CFG[nids]}, keep, name, max_hist, one_in=one_in)


def model_histories(rep, module, cfg, consts, label, header, keep, name, max_hist=None, timeout=3600, one_in=1):
    """Model-check a bounded configuration with edge emission; write the distinct emitted histories
    selected by keep(ops, key) into PARTS part files.  one_in > 1: TLC itself prints only a random 1/one_in sample of the explored
    transitions (EmitOneIn; all states are still visited and checked).  Returns (part files, count, total printed)."""
    if one_in > 1:
        consts = dict(consts, EmitOneIn=one_in)
        label += " [1/%d of the transitions printed]" % one_in
    r, so = vlib.model_check(module, cfg, name, emit=True, consts=consts, timeout=timeout)
    rep.add_model(label, r)
    hdr = json.dumps(header)
    files = [os.path.join(vlib.scratch(), "%s-h-%d.ndjson" % (name, k)) for k in range(PARTS)]
    fh = [open(f, "w") for f in files]
    for f in fh:
        f.write(hdr + "\n")
    seen = set()
    n = total = 0
    for s in vlib.emitted_lines(so):
        total += 1
        h = hashlib.blake2b(s.encode(), digest_size=8).digest()
        if h in seen:
            continue
        seen.add(h)
        key = int.from_bytes(h, "big")
        ops = None
        if keep is not None:
            ops = json.loads(s)
            if not keep(ops, key):
                continue
        if max_hist and n >= max_hist:
            continue
        fh[n % PARTS].write(s + "\n")
        if n % 997 == 0:
            rep.sample({"history": json.loads(s)})
        n += 1
    for f in fh:
        f.close()
    os.remove(so)
    return files, n, len(seen)


def merge_stats(stats):
    out = {}
    for s in stats:
        for k, v in s.items():
            if isinstance(v, dict):
                d = out.setdefault(k, {})
                for kk, vv in v.items():
                    d[kk] = d.get(kk, 0) + vv
            else:
                out[k] = max(out.get(k, 0), v)
    return out


def hist_stage(rep, stage, run_cmd, engine, trace_module, tcfg, hist_files, mode, what_prefix, sigfn=None, consts=None, tkey="t"):
    """Execute history part files with the harness, validate the traces, classify rejections."""
    t0 = time.time()
    try:
        traces, sums = run_parts(run_cmd + ["-mode", mode], hist_files, stage)
    except HarnessCrash as hc:
        def prefix_check(hdr, ops):
            f = os.path.join(vlib.scratch(), "%s-prefix-%d.ndjson" % (stage, random.randrange(1 << 30)))
            open(f, "w").write(hdr + "\n" + json.dumps(ops) + "\n")
            before = len(rep.violations) + len(rep.known)
            hist_stage(rep, stage + "-prefix", run_cmd, engine, trace_module, tcfg, [f], "full", what_prefix, sigfn, consts, tkey)
            return len(rep.violations) + len(rep.known) > before
        if isolate_crash(rep, hc, stage, None if stage.endswith("-prefix") else prefix_check):
            rep.stages[stage] = {"crashed": True}
            return 0
        raise
    nh = sum(s.get("histories", 0) for s in sums)
    t1 = time.time()
    results = vlib.validate_traces(traces, trace_module, tcfg, stage + "-tv", consts=consts)
    log("stage %s: %d histories, harness %.1fs, trace validation %.1fs" % (stage, nh, t1 - t0, time.time() - t1))

    def describe(res, rec, trace, why):
        part = res["part"]
        with open(hist_files[part]) as f:
            lines = f.read().split("\n")
        hist = json.loads(lines[rec[tkey]])
        cfg = json.loads(lines[0])["cfg"]
        sig = sigfn(rec, trace, why, hist) if sigfn else "%s:%s:%s" % (engine, rec["ev"], why)
        what = "%s at event %s (rejected by %s) after a history of %d ops" % (what_prefix, rec["ev"], why, len(hist))
        return sig, what, {"engine": "hist", "run_cmd": run_cmd, "mode": mode, "cfg": cfg, "history": hist, "trace": trace,
                           "consts": consts}

    nrec = handle_results(rep, results, trace_module, tcfg, describe, hist_replay, stage)
    drift = sum(r.get("drift", 0) for r in results)
    rep.traces += nh
    rep.evaluations += nh
    rep.stages[stage] = {"histories": nh, "records": nrec, "mode": mode, "trace_cfg": tcfg, "drift_edges": drift}
    st = merge_stats([s.get("stats") for s in sums if s.get("stats")])
    if st:
        rep.stages[stage]["reached"] = st
    if drift:
        rep.note("%s: %d transitions differ from the layer-C transcription while layers A/B hold (model drift, not a verdict)" % (stage, drift))
    return nh


def hist_replay(payload):
    """Re-execute one history in a fresh process and validate it alone; True if rejected again."""
    d = os.path.join(vlib.scratch(), "replay-%d" % random.randrange(1 << 30))
    os.makedirs(d)
    hf = os.path.join(d, "h.ndjson")
    with open(hf, "w") as f:
        f.write(json.dumps({"cfg": payload["cfg"]}) + "\n" + json.dumps(payload["history"]) + "\n")
    traces, _ = run_parts(payload["run_cmd"] + ["-mode", payload["mode"]], [hf], os.path.basename(d))
    res = vlib.validate_traces(traces, payload["trace_module"], payload["trace_cfg"], os.path.basename(d) + "-tv",
                               consts=payload.get("consts"))
    for r in res:
        if "error" in r:
            raise Inconclusive(r["error"])
    if any(not r["ok"] for r in res):
        return True
    if payload.get("_attempt", 0) < 3:
        # behaviour that depends on goroutine scheduling or on Go's randomised map iteration (e.g. which pending slab the
        # order-relaxed commit writes first) does not show in every execution: a few more fresh processes
        return hist_replay(dict(payload, _attempt=payload.get("_attempt", 0) + 1))
    return False


def storage_stage(rep, stage, tcfg, hist_files, mode):
    return hist_stage(rep, stage, ["storage-run"], "storage", "SlabStorageTrace.tla", tcfg, hist_files, mode,
                      "real PersistentSlabStorage diverges from SlabStorage")


def storage_random_stage(rep, stage, tcfg, n, length, nids):
    exe = vlib.build_harness()
    outs, procs = [], []
    per = max(1, n // PARTS)
    for k in range(PARTS):
        out = os.path.join(vlib.scratch(), "%s-trace-%d.ndjson" % (stage, k))
        outs.append(out)
        procs.append((k, subprocess.Popen([exe, "storage-random", "-out", out, "-seed", str(rep.seed * 1000 + k), "-n", str(per),
                                           "-len", str(length), "-nids", str(nids)], stdout=subprocess.PIPE, stderr=subprocess.PIPE, text=True)))
    nh = 0
    for k, p in procs:
        so, se = p.communicate(timeout=1800)
        if p.returncode != 0:
            raise Inconclusive("storage-random failed: " + se[-2000:])
        nh += vlib.last_json(so).get("histories", 0)
    results = vlib.validate_traces(outs, "SlabStorageTrace.tla", tcfg, stage + "-tv")

    def describe(res, rec, trace, why):
        part = res["part"]
        sig = "storage:%s:%s" % (rec["ev"], why)
        what = "real PersistentSlabStorage diverges from SlabStorage at event %s (%s) in random history (seed %d, trace %d)" % (
            rec["ev"], why, rep.seed * 1000 + part, rec["t"])
        return sig, what, {"engine": "storage-random", "seed": rep.seed * 1000 + part, "n": per, "len": length, "nids": nids,
                           "t": rec["t"], "trace": trace}

    def confirm(payload):
        return storage_random_replay(payload)

    nrec = handle_results(rep, results, "SlabStorageTrace.tla", tcfg, describe, confirm, stage)
    rep.traces += nh
    rep.evaluations += nh
    rep.stages[stage] = {"histories": nh, "records": nrec, "trace_cfg": tcfg, "driver": "seeded random, %d ids, 3 versions" % nids}


def storage_random_replay(payload):
    exe = vlib.build_harness()
    d = os.path.join(vlib.scratch(), "replay-%d" % random.randrange(1 << 30))
    os.makedirs(d)
    out = os.path.join(d, "t.ndjson")
    p = subprocess.run([exe, "storage-random", "-out", out, "-seed", str(payload["seed"]), "-n", str(payload["n"]),
                        "-len", str(payload["len"]), "-nids", str(payload["nids"])], capture_output=True, text=True)
    if p.returncode != 0:
        raise Inconclusive("storage-random failed: " + p.stderr[-2000:])
    # keep only trace t
    keep = os.path.join(d, "one.ndjson")
    with open(out) as f, open(keep, "w") as g:
        for line in f:
            if json.loads(line)["t"] == payload["t"]:
                g.write(line)
    res = vlib.validate_traces([keep], payload["trace_module"], payload["trace_cfg"], os.path.basename(d) + "-tv")
    for r in res:
        if "error" in r:
            raise Inconclusive(r["error"])
    return any(not r["ok"] for r in res)


def sim_histories(rep, module, cfg, consts, label, header, name, num, depth, workers=8, timeout=3600, fan=0):
    """TLC -simulate: random walks of the bounded model; each walk prints its history when it reaches
    EmitDepth operations.  fan > 0 (MC_MapWalk / MC_Array_sim): keep EVERY candidate successor TLC generated in the last `fan`
    steps of each walk - the complete one-step closure of the states the walk passes through there (for edge-mode replay).
    Returns (part files, count)."""
    d = vlib.tlc_dir(name)
    text = open(os.path.join(d, cfg)).read()
    allc = dict(consts, EmitDepth=depth)
    if re.search(r"(?m)^\s*FanFrom\s*=", text):
        allc["FanFrom"] = depth - fan
    for k, v in allc.items():
        text, n = re.subn(r"(?m)^(\s*%s\s*=\s*).*$" % re.escape(k), lambda m: m.group(1) + str(v), text)
        if n == 0:
            raise Inconclusive("constant %s not in %s" % (k, cfg))
    open(os.path.join(d, cfg), "w").write(text)
    so = os.path.join(d, "stdout.txt")
    # TLC stops all workers once enough traces are complete, so unfinished walks are lost: ask for more than needed
    per = max(2, (2 * num + workers - 1) // workers)
    r = vlib.run_tlc(d, module, cfg, workers=workers, timeout=timeout, stdout_file=so,
                     extra=["-simulate", "num=%d" % per, "-depth", str(depth + 4), "-seed", str(rep.seed)], heap="4g")
    if "Error:" in r.out:
        raise Inconclusive("TLC simulation of %s/%s failed (defect of the MODEL):\n%s" % (module, cfg, r.out[-3000:]))
    log("simulate %s %s: %.1fs" % (module, label, r.wall))
    m = re.search(r"The number of states generated: (\d+)", r.out)
    gen = int(m.group(1)) if m else 0
    rep.models.append({"config": label + " (simulate, %d walks of depth %d)" % (num, depth), "states_generated": gen, "wall_s": round(r.wall, 1)})
    rep.transitions += gen
    rep.states += gen      # simulation: states visited along the walks (distinctness is not tracked by TLC in this mode)
    files = [os.path.join(vlib.scratch(), "%s-h-%d.ndjson" % (name, k)) for k in range(PARTS)]
    fh = [open(f, "w") for f in files]
    for f in fh:
        f.write(json.dumps(header) + "\n")
    seen = set()
    n = 0
    for s in vlib.emitted_lines(so):
        # TLC evaluates the emitting invariant on every candidate successor of the last step: keep one walk per prefix
        key = s[:s.rfind(",[")] if ",[" in s else s
        if fan:
            key = hashlib.blake2b(s.encode(), digest_size=10).digest()
            last = s[s.rfind(",[") + 1:]
            if key in seen or n >= num * 100000 or last.startswith('["mget"') or last.startswith('["mhas"') or last.startswith('["get"'):
                continue
        elif key in seen or n >= num:
            continue
        seen.add(key)
        fh[n % PARTS].write(s + "\n")
        if n < 2:
            rep.sample({"walk_prefix": json.loads(s)[:12], "walk_length": len(json.loads(s))})
        n += 1
    for f in fh:
        f.close()
    os.remove(so)
    if n == 0:
        raise Inconclusive("simulation emitted no walk")
    return files, n


def boundary_fan_stage(rep, stage, run_cmd, engine, module, cfg, consts, label, header, trace_module, tcfg, what,
                       num, depth, fan, want=("rootfull", "midfull"), maxcuts=6, workers=2, nhdr=0, wrap=False):
    """State-directed one-step closure.  TLC simulates growth walks and prints, for every state a walk passes through in its last
    `fan` steps, EVERY candidate successor (the printing invariant is evaluated on all of them).  The harness scans each walk once
    and reports the steps at which the real container sits on a size boundary (a full root / inner index slab).  Exactly there the
    complete one-step closure is replayed (edge mode: the prefix silently, the last operation recorded and judged).
    nhdr: leading non-operation entries of a history (the digest table of map walks)."""
    d = vlib.tlc_dir(stage)
    text = open(os.path.join(d, cfg)).read()
    for k, v in dict(consts, EmitDepth=depth, FanFrom=depth - fan).items():
        text, n = re.subn(r"(?m)^(\s*%s\s*=\s*).*$" % re.escape(k), lambda m: m.group(1) + str(v), text)
        if n == 0:
            raise Inconclusive("constant %s not in %s" % (k, cfg))
    open(os.path.join(d, cfg), "w").write(text)
    so = os.path.join(d, "stdout.txt")
    per = max(1, (num + workers - 1) // workers)
    r = vlib.run_tlc(d, module, cfg, workers=workers, timeout=1800, stdout_file=so,
                     extra=["-simulate", "num=%d" % per, "-depth", str(depth + 4), "-seed", str(rep.seed)], heap="4g")
    if "Error:" in r.out:
        raise Inconclusive("TLC simulation of %s/%s failed (defect of the MODEL):\n%s" % (module, cfg, r.out[-3000:]))
    m = re.search(r"The number of states generated: (\d+)", r.out)
    gen = int(m.group(1)) if m else 0
    rep.models.append({"config": label + " (simulate, one-step closure of the last %d states of each walk of depth %d)" % (fan, depth),
                       "states_generated": gen, "wall_s": round(r.wall, 1)})
    rep.transitions += gen
    rep.states += gen
    # pass 1: the walks themselves are the longest printed histories (cheap length measure: number of tuples)
    def nops(s):
        if nhdr:
            # skip the digest table <<"dig", <<d0, d1, d2, d3>>, ...>> (nested tuples); operations are flat tuples
            return s[s.index("]],") + 2:].count(",[")
        return s.count("],[") + 1
    top = 0
    for s in vlib.emitted_lines(so):
        top = max(top, nops(s))
    if top == 0:
        raise Inconclusive("simulation emitted nothing")
    walks, seenw = [], set()
    for s in vlib.emitted_lines(so):
        if nops(s) == top:
            ops = json.loads(s)
            key = json.dumps(ops[:-1])
            if key not in seenw:
                seenw.add(key)
                walks.append(ops)
    walks = walks[:num]
    # scan: where does the real container sit on a boundary?
    sf = os.path.join(vlib.scratch(), stage + "-scan.ndjson")
    with open(sf, "w") as f:
        f.write(json.dumps(header) + "\n")
        for w in walks:
            f.write(json.dumps(w) + "\n")
    outs, _ = run_parts(run_cmd + ["-mode", "scan"], [sf], stage + "-scan")
    cuts = {}
    rcs = {}
    with open(outs[0]) as f:
        for line in f:
            j = json.loads(line)
            rcs.setdefault(j["t"], []).append(j["rc"])
            for fl in j["flags"]:
                if fl in want and top - fan <= j["n"] < top:
                    cuts.setdefault((j["t"], fl), []).append(j["n"])
    chosen = {}
    for (t, fl), ns in cuts.items():
        # spread the cuts over the flagged stretch
        pick = ns if len(ns) <= maxcuts else [ns[i * (len(ns) - 1) // (maxcuts - 1)] for i in range(maxcuts)]
        for n in pick:
            chosen.setdefault(t, set()).add(n)
    files = [os.path.join(vlib.scratch(), "%s-h-%d.ndjson" % (stage, k)) for k in range(PARTS)]
    fh = [open(f, "w") for f in files]
    for f in fh:
        f.write(json.dumps(header) + "\n")
    nh = 0
    want_pre = {}
    for t, ns in chosen.items():
        w = walks[t - 1]
        for n in ns:
            want_pre.setdefault(n + 1, set()).add(json.dumps(w[:nhdr + n]))
    seenl = set()
    for s in vlib.emitted_lines(so):
        k = nops(s)
        if k not in want_pre:
            continue
        hk = hashlib.blake2b(s.encode(), digest_size=10).digest()
        if hk in seenl:
            continue
        seenl.add(hk)
        ops = json.loads(s)
        if ops[-1][0] in ("mget", "mhas", "get") or json.dumps(ops[:-1]) not in want_pre[k]:
            continue
        fh[nh % PARTS].write(s + "\n")
        nh += 1
    os.remove(so)
    for f in fh:
        f.close()
    rep.stages[stage] = {"walks": len(walks), "boundary_states": {"%d:%s" % k: v for k, v in cuts.items()}, "histories": nh,
                         "root_children_in_window": {t: [min(v[top - fan:] or [0]), max(v[top - fan:] or [0])] for t, v in rcs.items()}, "root_children_trajectory": {t: v[::5] for t, v in rcs.items()}}
    if nh == 0:
        rep.note("%s: no walk reached a boundary state (%s) in its fan window" % (stage, ",".join(want)))
        return 0
    base = len(rep.distinct)
    rep.distinct.update(range(base, base + nh))
    st = rep.stages[stage]
    if wrap:
        hist_stage(rep, stage, run_cmd + ["-tail", "2"], engine, trace_module, tcfg, wrap_persist(files, nhdr), "tail", what)
    else:
        hist_stage(rep, stage, run_cmd, engine, trace_module, tcfg, files, "edge", what)
    rep.stages[stage].update({"walks": st["walks"], "boundary_states": st["boundary_states"], "root_children_in_window": st["root_children_in_window"]})
    return nh


def wrap_persist(files, nhdr=0):
    """Rewrite edge histories  prefix + [op]  into  prefix + [commit (+ cache drop)] + [op] + [commit]: the operation then acts on
    slabs that are clean in the read cache (or freshly decoded from the ledger), so a restructuring step that forgets to put a
    changed slab into the write set is visible right after the operation (CacheCoherent) and after the closing commit (Durable,
    a brand-new storage reads the registers).  Run with  -mode tail -tail 2  (Load, the operation, the closing commit)."""
    for f in files:
        with open(f) as fh:
            lines = fh.read().split("\n")
        out = [lines[0]]
        for ln in lines[1:]:
            if not ln.strip():
                continue
            ops = json.loads(ln)
            if len(ops) <= nhdr:
                continue
            k = vlib.stable_hash(ln) % 3
            mid = [["commit", "det", 1, 0]] + ([["dropcache"]] if k == 1 else []) + ([["crash"]] if k == 2 else [])
            out.append(json.dumps(ops[:-1] + mid + [ops[-1], ["commit", "nondet" if k else "det", 2, 0]]))
        with open(f, "w") as fh:
            fh.write("\n".join(out) + "\n")
    return files


def frac(key, num, den):
    return key % den < num


def check_C15(rep):
    rep.rule = ("histories = every transition of the TLC state graph of SlabStorage (closure over the identifier universe) "
                "that completes an API call, replayed into the real PersistentSlabStorage and validated record by record by "
                "SlabStorageTrace (all events strict); distinct = distinct histories; plus seeded random histories on a larger universe")
    rep.assumptions += ["slab payloads are opaque versions: real array root slabs whose element count is the version",
                        "the ledger is the harness's LedgerSim (implements atree.BaseStorage)"]
    quick = rep.tier == "quick"
    sel = (lambda ops, key: frac(key + rep.seed, 1, 6)) if quick else None
    files, n, total = storage_histories(rep, 3, sel, "c15-mc3")
    rep.exhaustive = not quick
    rep.distinct.update(range(n))
    storage_stage(rep, "c15-edges-3ids", "SlabStorageTrace_C15.cfg", files, "edge")
    rep.stages["c15-edges-3ids"]["selected_of_distinct_histories"] = [n, total]
    if not quick:
        files4, n4, total4 = storage_histories(rep, 4, lambda ops, key: frac(key + rep.seed, 1, 2), "c15-mc4", one_in=20)
        storage_stage(rep, "c15-edges-4ids", "SlabStorageTrace_C15.cfg", files4, "edge")
        rep.stages["c15-edges-4ids"]["selected_of_distinct_histories"] = [n4, total4]
    storage_random_stage(rep, "c15-random", "SlabStorageTrace_C15.cfg", 140 if quick else 4000, 80 if quick else 150, 6 if quick else 8)


def check_C14(rep):
    rep.level = "model_checking"
    rep.rule = ("histories = transitions of the SlabStorage state graph that contain a failing ledger write inside a commit "
                "(every position, both commit kinds), replayed with the same fault placement against the real storage and "
                "validated in full by SlabStorageTrace (commit events strict; ReadYourWrites, CommitOK, CommitFailedLosesNothing "
                "as invariants); plus random histories with up to 3 injected faults per commit and retries")
    rep.assumptions += ["a failing ledger call has no effect on the ledger (LedgerSim)", "faults are injected only into write/delete calls of commits"]
    quick = rep.tier == "quick"

    def sel(ops, key):
        if not any(o["op"] == "commit" and o["fail"] > 0 for o in ops):
            return False
        return frac(key + rep.seed, 1, 3) if quick else True
    files, n, total = storage_histories(rep, 3, sel, "c14-mc3")
    rep.exhaustive = not quick
    rep.distinct.update(range(n))
    storage_stage(rep, "c14-faulty-3ids", "SlabStorageTrace_C14.cfg", files, "full")
    rep.stages["c14-faulty-3ids"]["selected_of_distinct_histories"] = [n, total]
    storage_random_stage(rep, "c14-random", "SlabStorageTrace_C14.cfg", 140 if quick else 4000, 80 if quick else 150, 6 if quick else 8)


# ---------------------------------------------------------------------------
# array engine (ArraySeq / ArrayTree / TreeInv / ArrayTrace)

def array_stages(rep, tcfg, what, sigprefix):
    quick = rep.tier == "quick"
    maxel = 5 if quick else 7
    consts = {"EmitEdges": "TRUE", "MaxElems": maxel, "T": 256}
    sel = (lambda ops, key: frac(key + rep.seed, 1, 2 if sigprefix == "c01" else 4)) if quick else None
    files, n, total = model_histories(rep, "MC_Array.tla", "MC_Array.cfg", consts,
                                      "MC_Array T=256 Sizes={19,60,117,130} MaxElems=%d (all shapes, all ops incl. rejected)" % maxel,
                                      {"cfg": {"T": 256}}, sel, sigprefix + "-mc")
    rep.exhaustive = not quick
    rep.distinct.update(range(n))
    hist_stage(rep, sigprefix + "-edges", ["array-run"], "array", "ArrayTrace.tla", tcfg, files, "edge", what)
    rep.stages[sigprefix + "-edges"]["selected_of_distinct_histories"] = [n, total]
    light = quick and sigprefix != "c01"      # C05 shares these stages with C01: fewer walks in its quick tier
    # (simulating layer C costs about 5 ms per step and walk at these depths: the thorough numbers are sized for ~10 min of TLC)
    walks = [(256, "{19, 60, 117, 130}", (10 if light else 20) if quick else 120, 200 if quick else 400),
             (512, "{30, 120, 245, 300}", (5 if light else 10) if quick else 60, 300 if quick else 600)]
    if not quick:
        walks += [(1024, "{40, 250, 501, 700}", 30, 800), (257, "{19, 61, 118, 131}", 60, 300)]
    for (T, sizes, num, depth) in walks:
        nm = "%s-sim%d" % (sigprefix, T)
        wf, wn = sim_histories(rep, "MC_Array.tla", "MC_Array_sim.cfg",
                               {"T": T, "Sizes": sizes, "WithReads": "FALSE", "AllowPop": "FALSE", "MaxElems": 100000,
                                "GrowUntil": depth // 3, "ShrinkFrom": depth - depth // 3 - 10},
                               "MC_Array T=%d Sizes=%s" % (T, sizes), {"cfg": {"T": T}}, nm, num, depth)
        base = len(rep.distinct)
        rep.distinct.update(range(base, base + wn))
        hist_stage(rep, nm, ["array-run"], "array", "ArrayTrace.tla", tcfg, wf, "full", what)


def array_exact_stage(rep, tcfg, what, prefix):
    """Threshold-exact search: the array algorithm is explored breadth-first (layer C) with element sizes chosen so that slab sizes can
    land EXACTLY on the minimum / maximum (at slab 256: 21 + 47 + 60 = 128); TLC prints only the transitions whose successor has a slab
    sitting exactly on a threshold - the states where '>=' against '>' in a lend / borrow / merge / split decision changes the outcome -
    and every one of them is replayed."""
    quick = rep.tier == "quick"
    maxel = 7
    consts = {"EmitEdges": "TRUE", "EmitExact": "TRUE", "MaxElems": maxel, "T": 256, "Sizes": "{27, 40, 47, 60}", "WithReads": "FALSE", "AllowPop": "FALSE"}
    files, n, total = model_histories(rep, "MC_Array.tla", "MC_Array.cfg", consts,
                                      "MC_Array T=256 Sizes={27,40,47,60} MaxElems=%d: transitions into a slab exactly on a threshold" % maxel,
                                      {"cfg": {"T": 256}}, (lambda ops, key: frac(key + rep.seed, 1, 3)) if quick else None, prefix + "-exact", timeout=3000)
    base = len(rep.distinct)
    rep.distinct.update(range(base, base + n))
    hist_stage(rep, prefix + "-exact-edges", ["array-run"], "array", "ArrayTrace.tla", tcfg, files, "edge", what)
    rep.stages[prefix + "-exact-edges"]["selected_of_distinct_histories"] = [n, total]


def check_C01(rep):
    rep.rule = ("histories = (a) every transition of the TLC state graph of the array algorithm (all shapes up to MaxElems, every "
                "insert/set/remove/get/pop position incl. out-of-range) and (b) TLC-simulated growth walks at several slab sizes, "
                "replayed into the real Array; each recorded call must be explained by the plain-sequence model (results, previous "
                "elements, count, type, root id, error class) and the observed slab forest must flatten to the model sequence")
    rep.assumptions += ["elements are strings of exact encoded size carrying an id; values above the inline limit become separate slabs through the library's own path"]
    array_stages(rep, "ArrayTrace_C01.cfg", "real Array diverges from the plain-sequence model", "c01")
    quick = rep.tier == "quick"
    # the boundary where the root index slab is full, every operation at every index
    array_fan_stage(rep, "ArrayTrace_C01.cfg", "real Array diverges from the plain-sequence model (full root index slab)", "c01")
    # heterogeneous elements: nested arrays / maps (wrapped or not) as elements, mutated through handles, bulk pops of arrays holding
    # containers; every call's result and everything read through the root must follow the sequence semantics (NestedTrace, layer A)
    nested_stage(rep, "c01", "NestedTrace_C01.cfg", "array with nested containers diverges from the sequence model", 256, "{12, 60, 110, 130}",
                 80 if quick else 1000, 100 if quick else 200, 6, 6, persist=False, kinds='{"A", "M"}')
    rep.exhaustive = False


def check_C05(rep):
    rep.rule = ("(a) Thresholds lemmas checked by TLC for all 32 513 legal slab sizes; (b) the layer-C array algorithm preserves "
                "well-formedness in every reachable shape (TLC invariant); (c) the slab forest projected from the real slabs after "
                "EVERY replayed operation must satisfy TreeInv (size band, element limits, root index slab >= 2 children, header "
                "copies, count sums, sibling links); content is adopted, so only structural facts are judged")
    d = vlib.tlc_dir("c05-thresholds")
    r = vlib.run_tlc(d, "MC_Thresholds.tla", "MC_Thresholds.cfg", workers=4, timeout=600)
    if not r.ok:
        raise Inconclusive("Thresholds lemmas failed in the model: " + r.out[-2000:])
    rep.add_model("MC_Thresholds: all legal slab sizes 256..32768", r)
    what = "slab tree violates well-formedness"
    array_stages(rep, "ArrayTrace_C05.cfg", "real Array " + what, "c05")
    quick = rep.tier == "quick"
    map_collide_stage(rep, "MapTrace_C05.cfg", "real OrderedMap " + what, "c05", 255, 3, (1, 40) if quick else (1, 4))
    map_slab_stage(rep, "MapTrace_C05.cfg", "real OrderedMap " + what, "c05")
    map_full_stage(rep, "MapTrace_C05.cfg", "real OrderedMap " + what, "c05")
    deep_map_shrink_stage(rep, "c05", "C05", "real OrderedMap " + what + " (three levels, shrinking)")
    thinning_family(rep, "c05", "real OrderedMap " + what + " (even thinning of a three-level map)", "real Array " + what + " (even thinning of a three-level array)")
    array_fan_stage(rep, "ArrayTrace_C05.cfg", "real Array " + what + " (operation on a full root index slab)", "c05")
    array_exact_stage(rep, "ArrayTrace_C05.cfg", "real Array " + what + " (a slab exactly on a threshold)", "c05")
    map_exact_stage(rep, "MapTrace_C05.cfg", "real OrderedMap " + what + " (a slab exactly on a threshold)", "c05")
    map_fan_stage(rep, "MapTrace_C05.cfg", "real OrderedMap " + what + " (operation on a full root index slab)", "c05")
    for (T, nkeys, mode, ksz, vs, maxel, num, depth) in ([(256, 40, "spread", 5, "{12, 40, 60, 101}", 107, 14, 150), (256, 24, "clustered", 5, "{12, 40}", 107, 8, 100)] if quick else
                                                         [(256, 40, "spread", 5, "{12, 40, 60, 101}", 107, 300, 400), (256, 24, "clustered", 5, "{12, 40, 90}", 107, 200, 300),
                                                          (512, 60, "spread", 9, "{12, 100, 229}", 235, 150, 500), (1024, 80, "spread", 9, "{12, 200, 485}", 491, 60, 600)]):
        map_walk_stage(rep, "MapTrace_C05.cfg", "real OrderedMap " + what, "c05", T, nkeys, mode, ksz, vs, maxel, num, depth)
    # containers produced by the bulk builders are containers too: every size stream over edge sizes, then bulk build
    maxel = 6 if quick else 7
    files, n, total = model_histories(rep, "MC_Array.tla", "MC_Array.cfg",
                                      {"EmitEdges": "TRUE", "MaxElems": maxel, "T": 256, "Sizes": "{8, 20, 60, 70, 117}", "AppendOnly": "TRUE"},
                                      "MC_Array append-only: all size streams over {8,20,60,70,117} up to %d elements (bulk-built copies)" % maxel,
                                      {"cfg": {"T": 256}}, (lambda ops, key: frac(key + rep.seed, 1, 3)) if quick else None, "c05-streams")
    base = len(rep.distinct)
    rep.distinct.update(range(base, base + n))
    hist_stage(rep, "c05-array-streams", probe_cmd("array-run", "batch", rep), "array", "ArrayTrace.tla", "ArrayTrace_C05.cfg", files, "edge", "bulk-built Array " + what)
    map_stream_stage(rep, "c05", "MapTrace_C05.cfg", "bulk-built OrderedMap " + what)
    for (depth, num) in ([(9, 60)] if quick else [(5, 1500), (7, 2500), (9, 2500)]):
        nm = "c05-map-streams%d" % depth
        wf, wn = sim_histories(rep, "MC_MapWalk.tla", "MC_MapWalk.cfg",
                               {"Keys": keyset(12), "DigMode": '"spread"', "KSz": 5, "VSizes": "{14, 39, 74, 101}", "GrowUntil": 1000, "ShrinkFrom": 1000000},
                               "MC_MapWalk growth-only streams of %d inserts (bulk-built copies)" % depth, {"cfg": {"T": 256, "limit": 255}}, nm, num, depth)
        base = len(rep.distinct)
        rep.distinct.update(range(base, base + wn))
        hist_stage(rep, nm, probe_cmd("map-run", "batch", rep), "map", "MapTrace.tla", "MapTrace_C05.cfg", wf, "edge", "bulk-built OrderedMap " + what)
    rep.exhaustive = False


# ---------------------------------------------------------------------------
# map engine (MapDict / MapTree / TreeInv / MapTrace)

def keyset(n):
    return "{" + ", ".join(str(i) for i in range(1, n + 1)) + "}"


def map_collide_stage(rep, tcfg, what, prefix, limit, nkeys, fraction, ksz=3, vsizes="{12, 40}"):
    consts = {"EmitEdges": "TRUE", "Limit": limit, "Keys": keyset(nkeys), "KSz": ksz, "VSizes": vsizes}
    sel = (lambda ops, key: frac(key + rep.seed, fraction[0], fraction[1])) if fraction else None
    name = "%s-mc-l%d-k%d" % (prefix, limit, ksz)
    files, n, total = model_histories(rep, "MC_Map.tla", "MC_Map.cfg", consts,
                                      "MC_Map %d keys of %d bytes, all digest assignments over {0,1}^4, values %s, limit %d" % (nkeys, ksz, vsizes, limit),
                                      {"cfg": {"T": 256, "limit": limit}}, sel, name)
    base = len(rep.distinct)
    rep.distinct.update(range(base, base + n))
    st = "%s-collide-l%d-k%d" % (prefix, limit, ksz)
    hist_stage(rep, st, ["map-run"], "map", "MapTrace.tla", tcfg, files, "edge", what)
    rep.stages[st]["selected_of_distinct_histories"] = [n, total]
    return fraction is None


def map_walk_stage(rep, tcfg, what, prefix, T, nkeys, mode, ksz, vsizes, maxel, num, depth, limit=255):
    nm = "%s-sim%d-%s" % (prefix, T, mode)
    wf, wn = sim_histories(rep, "MC_MapWalk.tla", "MC_MapWalk.cfg",
                           {"Keys": keyset(nkeys), "DigMode": '"%s"' % mode, "KSz": ksz, "VSizes": vsizes,
                            "Limit": limit, "GrowUntil": depth // 3, "ShrinkFrom": depth - depth // 3},
                           "MC_MapWalk T=%d %d keys digests=%s" % (T, nkeys, mode), {"cfg": {"T": T, "limit": limit}}, nm, num, depth)
    base = len(rep.distinct)
    rep.distinct.update(range(base, base + wn))
    hist_stage(rep, nm, ["map-run"], "map", "MapTrace.tla", tcfg, wf, "full", what)


def map_builtin_stage(rep, tcfg, what, prefix, T, nkeys, num, depth, mask=3, probes=None):
    """Walks executed with the production digester (pooled, CircleHash + BLAKE3) whose first-level digest is masked through the
    verif hook: real first-level collisions with real deeper digests.  Digests are unknown to the model: content only."""
    nm = "%s-builtin%d" % (prefix, T)
    wf, wn = sim_histories(rep, "MC_MapWalk.tla", "MC_MapWalk.cfg",
                           {"Keys": keyset(nkeys), "DigMode": '"spread"', "KSz": 5, "VSizes": "{12, 40}",
                            "GrowUntil": depth // 3, "ShrinkFrom": depth - depth // 3},
                           "MC_MapWalk T=%d %d keys, built-in digester with masked first level" % (T, nkeys), {"cfg": {"T": T, "limit": 255}}, nm, num, depth)
    base = len(rep.distinct)
    rep.distinct.update(range(base, base + wn))
    cmd = (probe_cmd("map-run", probes, rep) if probes else ["map-run"]) + ["-builtinmask", str(mask)]
    hist_stage(rep, nm, cmd, "map", "MapTrace.tla", tcfg, wf, "edge" if probes else "full", what)


def map_fan_stage(rep, tcfg, what, prefix, wrap=False):
    """Boundary search: growth walks over keys of which one in three belongs to a colliding pair (collision groups of exactly two,
    large values, so that groups spill into external slabs and slabs hold two or three entries) into the region where the root index slab is full (20 children at slab
    256); at the states where the real root index slab is full, TLC's complete set of candidate successors (every insert,
    overwrite and removal of every key) is replayed from that state."""
    quick = rep.tier == "quick"
    for (depth, fan, num) in ([(110, 70, 2)] if quick else [(110, 70, 12), (120, 80, 12)]):
        # growth throughout (inside the fan window removals of present keys are candidates as well)
        boundary_fan_stage(rep, "%s-mapfan%d" % (prefix, depth), ["map-run"], "map", "MC_MapWalk.tla", "MC_MapWalk.cfg",
                           {"Keys": keyset(150), "DigMode": '"mixed"', "KSz": 5, "VSizes": "{60, 95}", "AllowPop": "FALSE",
                            "GrowUntil": 1000, "ShrinkFrom": 1000000},
                           "MC_MapWalk mixed digests (collision groups of two among spread keys), large values", {"cfg": {"T": 256, "limit": 255}},
                           "MapTrace.tla", tcfg, what, num, depth, fan, nhdr=1, wrap=wrap)


def array_fan_stage(rep, tcfg, what, prefix, wrap=False):
    """Boundary search for arrays: growth walks into the region where the root index slab is full (26 children at slab 256); at the
    states where the real root index slab is full, TLC's complete set of candidate successors (every insert, overwrite and removal
    at every index, every size) is replayed from that state."""
    quick = rep.tier == "quick"
    for (depth, fan, num) in ([(170, 100, 2)] if quick else [(170, 100, 10), (190, 120, 10)]):
        # large elements: two or three per slab, so that the root index slab fills up with ~60 elements
        boundary_fan_stage(rep, "%s-arrayfan%d" % (prefix, depth), ["array-run"], "array", "MC_Array.tla", "MC_Array_sim.cfg",
                           {"T": 256, "Sizes": "{90, 117}", "WithReads": "FALSE", "AllowPop": "FALSE", "MaxElems": 100000,
                            "GrowUntil": 1000, "ShrinkFrom": 1000000},
                           "MC_Array T=256 growth walks", {"cfg": {"T": 256}}, "ArrayTrace.tla", tcfg, what, num, depth, fan, nhdr=0, wrap=wrap)


def map_full_stage(rep, tcfg, what, prefix, wrap=False, limits=(255,), probes=None, scale=1, vs_triples="{12, 101}"):
    """Every transition of the COMPOSED map algorithm (MapFull: slab tree x collision groups, layer C) for keys that collide in
    pairs / triples / on every level among keys with digests of their own: groups form, spill, collapse while the slabs that hold
    them split, borrow and merge.  Replayed in edge mode (or persist-wrapped); layer C is compared as drift."""
    quick = rep.tier == "quick"
    plans = [("mixed", 8, 6 if quick else 7, "{12, 101}", 24 if quick else 4)]
    if not quick:
        plans += [("mixed", 8, 7, "{12, 60, 101}", 16), ("pairs", 6, 6, "{12, 60, 101}", 2), ("triples", 6, 6, vs_triples, 2), ("deep", 6, 6, "{12, 101}", 1)]
    else:
        plans += [("triples", 6, 5, vs_triples, 12)]
    for lim in limits:
        for (mode, nk, mk, vs, den) in plans:
            if lim != 255 and mode not in ("triples", "pairs"):
                continue
            name = "%s-mfull-%s-%d-l%d" % (prefix, mode, mk, lim)
            files, n, total = model_histories(rep, "MC_MapFull.tla", "MC_MapFull.cfg",
                                              {"EmitEdges": "TRUE", "Keys": keyset(nk), "MaxKeys": mk, "DigMode": '"%s"' % mode, "VSizes": vs, "LimitF": lim},
                                              "MC_MapFull T=256 digests=%s %d keys (<= %d present) x values %s, limit %d: all shapes of the composed algorithm, all ops" % (mode, nk, mk, vs, lim),
                                              {"cfg": {"T": 256, "limit": lim}}, lambda ops, key: frac(key + rep.seed, 1, den * scale), name, timeout=7200)
            base = len(rep.distinct)
            rep.distinct.update(range(base, base + n))
            if wrap:
                hist_stage(rep, name + "-edges", ["map-run", "-tail", "2"], "map", "MapTrace.tla", tcfg, wrap_persist(files, 1), "tail", what)
            elif probes:
                hist_stage(rep, name + "-edges", probe_cmd("map-run", probes, rep), "map", "MapTrace.tla", tcfg, files, "edge", what)
            else:
                hist_stage(rep, name + "-edges", ["map-run"], "map", "MapTrace.tla", tcfg, files, "edge", what)
            rep.stages[name + "-edges"]["selected_of_distinct_histories"] = [n, total]


def map_stream_stage(rep, prefix, tcfg, what):
    """Every value-size stream up to 6-7 keys (growth in key order) over sizes on the edges, then the bulk builder on the result:
    the exhaustive counterpart of the random growth streams (tail rebalance / merge of NewMapFromBatchData)."""
    mk = 6 if rep.tier == "quick" else 7
    files, n, total = model_histories(rep, "MC_MapSlab.tla", "MC_MapSlab.cfg",
                                      {"EmitEdges": "TRUE", "Keys": keyset(mk), "MaxKeys": mk, "VSizes": "{14, 39, 74, 101}", "AppendOnly": "TRUE"},
                                      "MC_MapSlab growth in key order: all value-size streams over {14,39,74,101} up to %d keys" % mk,
                                      {"cfg": {"T": 256, "limit": 255}}, None, prefix + "-mstreams")
    base = len(rep.distinct)
    rep.distinct.update(range(base, base + n))
    hist_stage(rep, prefix + "-map-streams-all", probe_cmd("map-run", "batch", rep), "map", "MapTrace.tla", tcfg, files, "edge", what)


def map_slab_stage(rep, tcfg, what, prefix):
    """Every transition of the slab-level map algorithm (MapSlabTree, layer C) for keys with distinct first-level digests."""
    quick = rep.tier == "quick"
    nk, mk, den = (6, 5, 24) if quick else (7, 6, 4)
    files, n, total = model_histories(rep, "MC_MapSlab.tla", "MC_MapSlab.cfg",
                                      {"EmitEdges": "TRUE", "Keys": keyset(nk), "MaxKeys": mk},
                                      "MC_MapSlab T=256 %d keys (<= %d present) x values {12,60,101,140}: all shapes, all ops incl. absent keys" % (nk, mk),
                                      {"cfg": {"T": 256, "limit": 255}}, lambda ops, key: frac(key + rep.seed, 1, den), prefix + "-mslab", timeout=7200,
                                      one_in=1 if quick else 4)
    base = len(rep.distinct)
    rep.distinct.update(range(base, base + n))
    hist_stage(rep, prefix + "-map-slab-edges", ["map-run"], "map", "MapTrace.tla", tcfg, files, "edge", what)
    rep.stages[prefix + "-map-slab-edges"]["selected_of_distinct_histories"] = [n, total]


def map_exact_stage(rep, tcfg, what, prefix):
    """Threshold-exact search for maps (see array_exact_stage): the slab-level map algorithm explored breadth-first with value sizes chosen
    so that data slabs can land exactly on the minimum / maximum size; only the transitions into such states are printed and replayed."""
    quick = rep.tier == "quick"
    files, n, total = model_histories(rep, "MC_MapSlab.tla", "MC_MapSlab.cfg",
                                      {"EmitEdges": "TRUE", "EmitExact": "TRUE", "Keys": keyset(7), "MaxKeys": 7, "VSizes": EXACT_MAP_VSIZES, "WithReads": "FALSE"},
                                      "MC_MapSlab T=256 7 keys x values %s: transitions into a slab exactly on a threshold" % EXACT_MAP_VSIZES,
                                      {"cfg": {"T": 256, "limit": 255}}, (lambda ops, key: frac(key + rep.seed, 1, 3)) if quick else None, prefix + "-mexact", timeout=3000)
    base = len(rep.distinct)
    rep.distinct.update(range(base, base + n))
    hist_stage(rep, prefix + "-map-exact-edges", ["map-run"], "map", "MapTrace.tla", tcfg, files, "edge", what)
    rep.stages[prefix + "-map-exact-edges"]["selected_of_distinct_histories"] = [n, total]


EXACT_MAP_VSIZES = "{20, 37, 54}"


def map_stages(rep, tcfg, what, prefix, collide=True):
    quick = rep.tier == "quick"
    ex = True
    if collide:
        ex = map_collide_stage(rep, tcfg, what, prefix, 255, 3, (1, 24) if quick else None)
    # slab-level behaviour: many keys with spread digests (splits, merges, first-key changes) and clustered digests
    walks = [(256, 40, "spread", 5, "{12, 40, 60}", 107, 16 if quick else 200, 150 if quick else 400),
             (256, 24, "clustered", 5, "{12, 40}", 107, 12 if quick else 200, 120 if quick else 300)]
    if not quick:
        walks += [(512, 60, "spread", 9, "{12, 100, 200}", 235, 100, 500), (1024, 60, "clustered", 9, "{12, 200, 400}", 491, 60, 500)]
    for (T, nkeys, mode, ksz, vs, maxel, num, depth) in walks:
        map_walk_stage(rep, tcfg, what, prefix, T, nkeys, mode, ksz, vs, maxel, num, depth)
    map_builtin_stage(rep, tcfg, what, prefix, 256, 24, 12 if quick else 300, 120 if quick else 300)
    map_slab_stage(rep, tcfg, what, prefix)
    map_full_stage(rep, tcfg, what, prefix)
    rep.exhaustive = False


def check_C02(rep):
    rep.rule = ("histories = (a) every transition of the TLC state graph of the map model for every digest assignment over {0,1}^4 "
                "of 3 keys and (b) TLC-simulated grow/churn/shrink walks over 24-60 keys with spread and clustered digests at several "
                "slab sizes, replayed into the real OrderedMap with a table-driven digester; every call must be explained by the "
                "dictionary model (returned value, previous value, removed pair, presence, count, type, error class) and the "
                "observed slab forest must hold exactly the dictionary's pairs")
    rep.assumptions += ["keys and values are id-carrying strings; digests come from a table-driven DigesterBuilder through the public interface"]
    map_stages(rep, "MapTrace_C02.cfg", "real OrderedMap diverges from the dictionary model", "c02")
    quick = rep.tier == "quick"
    map_fan_stage(rep, "MapTrace_C02.cfg", "real OrderedMap diverges from the dictionary model (full root index slab)", "c02")
    # nested containers as values, under first-level collisions of the built-in digester (masked), mutated through handles
    nested_stage(rep, "c02-collide", "NestedTrace_C02.cfg", "map with nested containers diverges from the dictionary model", 256, "{12, 40}",
                 80 if quick else 1000, 120 if quick else 250, 8, 6, persist=False, nkeys=6, kinds='{"M", "A"}', mask=1)


def check_C12(rep):
    rep.rule = ("every digest assignment over {0,1}^4 for 3 keys (4 in thorough) x all insert/update/remove histories to closure "
                "(TLC), collision limits 0,1,2,255; each explored transition replayed into the real OrderedMap; dictionary semantics, "
                "refusal exactly by the layer-A rule (new key and more than `limit` distinct second-level digests under its first-level "
                "digest), refused inserts leave the map unchanged, structure valid (TreeInv) after every step")
    quick = rep.tier == "quick"
    what = "real OrderedMap diverges from the dictionary-with-collision-limit model"
    ex = map_collide_stage(rep, "MapTrace_C12.cfg", what, "c12", 255, 3, (1, 16) if quick else None)
    for lim in (0, 1, 2):
        ex = map_collide_stage(rep, "MapTrace_C12.cfg", what, "c12", lim, 3, (1, 24) if quick else None) and ex
    # long keys: the value budget next to a key (an over-budget value must be moved to its own slab, also in full-collision lists)
    ex = map_collide_stage(rep, "MapTrace_C12.cfg", what, "c12", 255, 3, (1, 16) if quick else None, ksz=40, vsizes="{12, 80}") and ex
    # collision groups inside slabs that split / borrow / merge (composed layer C), limits 255 and 1
    map_full_stage(rep, "MapTrace_C12.cfg", what, "c12", limits=(255, 1))
    map_walk_stage(rep, "MapTrace_C12.cfg", what, "c12", 256, 24, "clustered", 5, "{12, 40}", 107, 12 if quick else 300, 120 if quick else 300)
    map_walk_stage(rep, "MapTrace_C12.cfg", what, "c12l1", 256, 24, "clustered", 5, "{12, 40}", 107, 8 if quick else 200, 100 if quick else 300, limit=1)
    rep.exhaustive = ex


# ---------------------------------------------------------------------------
# persistence stages (commit / drop cache / crash events inside container histories) and multi-run acceptor

def persist_stages(rep, prefix, cfgname, what, arrays=True, maps=True, index0=0):
    """index0: the ledger hands out slab indexes above it (identifiers straddling the 255 / 256 byte boundary in short histories)."""
    quick = rep.tier == "quick"
    hx = {"index0": index0} if index0 else {}
    if arrays:
        consts = {"EmitEdges": "TRUE", "MaxElems": 3 if quick else 4, "T": 256, "Persist": "TRUE"}
        den = 8 if quick else 2
        files, n, total = model_histories(rep, "MC_Array.tla", "MC_Array.cfg", consts,
                                          "MC_Array with commit/drop-cache/crash events, MaxElems=%d" % consts["MaxElems"],
                                          {"cfg": dict({"T": 256}, **hx)}, lambda ops, key: frac(key + rep.seed, 1, den), prefix + "-mcp")
        base = len(rep.distinct)
        rep.distinct.update(range(base, base + n))
        hist_stage(rep, prefix + "-array-edges", ["array-run"], "array", "ArrayTrace.tla", "ArrayTrace_%s.cfg" % cfgname, files, "edge", what)
        rep.stages[prefix + "-array-edges"]["selected_of_distinct_histories"] = [n, total]
        for (T, sizes, num, depth) in ([(256, "{19, 60, 117, 130}", 16, 160)] if quick else
                                       [(256, "{19, 60, 117, 130}", 100, 300), (512, "{30, 120, 245, 300}", 50, 400)]):
            nm = "%s-array-walk%d" % (prefix, T)
            wf, wn = sim_histories(rep, "MC_Array.tla", "MC_Array_sim.cfg",
                                   {"T": T, "Sizes": sizes, "WithReads": "FALSE", "AllowPop": "FALSE", "MaxElems": 100000, "Persist": "TRUE",
                                    "GrowUntil": depth // 3, "ShrinkFrom": depth - depth // 3 - 10},
                                   "MC_Array T=%d with persistence events" % T, {"cfg": dict({"T": T}, **hx)}, nm, num, depth)
            base = len(rep.distinct)
            rep.distinct.update(range(base, base + wn))
            hist_stage(rep, nm, ["array-run"], "array", "ArrayTrace.tla", "ArrayTrace_%s.cfg" % cfgname, wf, "full", what)
    if maps:
        for (T, nkeys, mode, ksz, vs, num, depth) in ([(256, 40, "spread", 5, "{12, 40, 60}", 16, 160)] if quick else
                                                     [(256, 40, "spread", 5, "{12, 40, 60}", 200, 400), (256, 24, "clustered", 5, "{12, 40}", 200, 300),
                                                      (512, 60, "spread", 9, "{12, 100, 200}", 100, 500)]):
            nm = "%s-map-walk%d-%s" % (prefix, T, mode)
            wf, wn = sim_histories(rep, "MC_MapWalk.tla", "MC_MapWalk.cfg",
                                   {"Keys": keyset(nkeys), "DigMode": '"%s"' % mode, "KSz": ksz, "VSizes": vs, "Persist": "TRUE",
                                    "GrowUntil": depth // 3, "ShrinkFrom": depth - depth // 3},
                                   "MC_MapWalk T=%d %d keys with persistence events" % (T, nkeys), {"cfg": dict({"T": T, "limit": 255}, **hx)}, nm, num, depth)
            base = len(rep.distinct)
            rep.distinct.update(range(base, base + wn))
            hist_stage(rep, nm, ["map-run"], "map", "MapTrace.tla", "MapTrace_%s.cfg" % cfgname, wf, "full", what)
    rep.exhaustive = False


def multirun_stage(rep, stage, kind, hist_files, variants, tcfg, what, envs=None):
    """Run every history under every variant (optionally once per environment = fresh process), merge the
    run records per history and validate with MultiRunTrace."""
    exe = vlib.build_harness()
    envs = envs or [{}]
    procs = []
    t0 = time.time()
    for k, f in enumerate(hist_files):
        for e, env in enumerate(envs):
            out = os.path.join(vlib.scratch(), "%s-mr-%d-%d.ndjson" % (stage, k, e))
            vs = [dict(v, name="%s/env%d" % (v["name"], e)) for v in variants]
            penv = dict(os.environ)
            penv.update(env)
            procs.append((k, e, out, subprocess.Popen([exe, "multirun", "-kind", kind, "-in", f, "-out", out, "-seed", str(rep.seed + e),
                                                       "-variants", json.dumps(vs)], stdout=subprocess.PIPE, stderr=subprocess.PIPE, text=True, env=penv)))
    outs = {}
    nh = 0
    for k, e, out, p in procs:
        so, se = p.communicate(timeout=3600)
        if p.returncode != 0:
            raise Inconclusive("multirun failed (%d): %s" % (p.returncode, se[-3000:]))
        outs.setdefault(k, []).append(out)
        if e == 0:
            nh += vlib.last_json(so).get("histories", 0)
    merged = []
    for k, files in sorted(outs.items()):
        recs = []
        for f in files:
            with open(f) as fh:
                recs += [(json.loads(line)["t"], i, line) for i, line in enumerate(fh)]
            os.remove(f)
        recs.sort(key=lambda x: x[0])
        mf = os.path.join(vlib.scratch(), "%s-trace-%d.ndjson" % (stage, k))
        with open(mf, "w") as fh:
            for _, _, line in recs:
                fh.write(line)
        merged.append(mf)
    t1 = time.time()
    results = vlib.validate_traces(merged, "MultiRunTrace.tla", tcfg, stage + "-tv")
    log("stage %s: %d histories x %d variants x %d envs, harness %.1fs, validation %.1fs" % (stage, nh, len(variants), len(envs), t1 - t0, time.time() - t1))

    def describe(res, rec, trace, why):
        part = res["part"]
        with open(hist_files[part]) as f:
            lines = f.read().split("\n")
        hist = json.loads(lines[rec["t"]])
        cfg = json.loads(lines[0])["cfg"]
        sig = "multirun:%s:%s" % (kind, why)
        w = "%s: variant %s of a history of %d ops disagrees with the reference run (%s)" % (what, rec["variant"], len(hist), why)
        return sig, w, {"engine": "multirun", "kind": kind, "cfg": cfg, "history": hist, "variants": variants, "envs": envs,
                        "seed": rep.seed, "trace": trace}

    nrec = handle_results(rep, results, "MultiRunTrace.tla", tcfg, describe, multirun_replay, stage)
    rep.traces += nrec
    rep.evaluations += nrec
    rep.stages[stage] = {"histories": nh, "runs": nrec, "variants": [v["name"] for v in variants], "envs": envs, "trace_cfg": tcfg}


def multirun_replay(payload):
    exe = vlib.build_harness()
    d = os.path.join(vlib.scratch(), "replay-%d" % random.randrange(1 << 30))
    os.makedirs(d)
    hf = os.path.join(d, "h.ndjson")
    with open(hf, "w") as f:
        f.write(json.dumps({"cfg": payload["cfg"]}) + "\n" + json.dumps(payload["history"]) + "\n")
    lines = []
    for e, env in enumerate(payload["envs"]):
        out = os.path.join(d, "o%d.ndjson" % e)
        vs = [dict(v, name="%s/env%d" % (v["name"], e)) for v in payload["variants"]]
        penv = dict(os.environ)
        penv.update(env)
        p = subprocess.run([exe, "multirun", "-kind", payload["kind"], "-in", hf, "-out", out, "-seed", str(payload["seed"] + e),
                            "-variants", json.dumps(vs)], capture_output=True, text=True, env=penv)
        if p.returncode != 0:
            raise Inconclusive("multirun failed: " + p.stderr[-2000:])
        lines += open(out).read().splitlines(True)
    tf = os.path.join(d, "all.ndjson")
    open(tf, "w").write("".join(lines))
    res = vlib.validate_traces([tf], payload["trace_module"], payload["trace_cfg"], os.path.basename(d) + "-tv")
    for r in res:
        if "error" in r:
            raise Inconclusive(r["error"])
    if any(not r["ok"] for r in res):
        return True
    if payload.get("_attempt", 0) < 4:
        # differences caused by Go map iteration order or scheduling are probabilistic: try again a few times
        return multirun_replay(dict(payload, _attempt=payload.get("_attempt", 0) + 1, seed=payload["seed"] + 1))
    return False


def walk_files(rep, prefix, kind, quick):
    """Histories (without persistence events) for the multi-run acceptor."""
    if kind == "array":
        T, sizes, num, depth = (256, "{19, 60, 117, 130}", 48 if quick else 300, 120 if quick else 300)
        return sim_histories(rep, "MC_Array.tla", "MC_Array_sim.cfg",
                             {"T": T, "Sizes": sizes, "WithReads": "TRUE", "AllowPop": "FALSE", "MaxElems": 100000,
                              "GrowUntil": depth // 3, "ShrinkFrom": depth - depth // 3 - 10},
                             "MC_Array T=%d (multi-run histories)" % T, {"cfg": {"T": T}}, prefix + "-mrh-a", num, depth)
    if kind == "nested":
        files, n = sim_histories(rep, "Nested.tla", "Nested.cfg", {"MaxC": 8, "MaxE": 8, "Sizes": "{12, 60, 110}", "Persist": "FALSE"},
                                 "Nested walks (multi-run histories)", {"cfg": {"T": 256}}, prefix + "-mrh-n", 48 if quick else 400, 100 if quick else 200)
        # scripted family: one parent slab whose inlined children carry several distinct type infos, each used several times
        # (shared / de-duplicated type information in the inlined-extra-data section)
        fam = []
        for parent in ("A", "M"):
            for nmaps in (4, 6, 4, 6):      # map extra data is never de-duplicated: 2-3 distinct type infos, each used twice
                h = [["root", 1, "A"]]
                p, nxt, sid = 1, 2, 1
                if parent == "M":
                    h.append(["n.appc", 1, nxt, "M", 0]); p = nxt; nxt += 1
                kids = []
                for i in range(nmaps):
                    if parent == "A":
                        h.append(["n.appc", p, nxt, "M", i % 2])
                    else:
                        h.append(["n.msetc", p, i + 1, 5, nxt, "M", i % 2])
                    h.append(["n.mset", nxt, 1, 5, sid, 12, 0, False, 0])
                    kids.append(nxt)
                    sid += 1
                    nxt += 1
                for i, kid in enumerate(kids):
                    if i % (nmaps // 2) != 0 or True:
                        h.append(["n.settype", kid, 44 + (i % (nmaps // 2))])
                h.append(["n.app", 1, sid + len(fam), 12, 0])
                fam.append(h)
        for i, h in enumerate(fam):
            with open(files[i % len(files)], "a") as f:
                f.write(json.dumps(h) + "\n")
        return files, n + len(fam)
    T, nkeys, mode, ksz, vs, num, depth = (256, 40, "spread", 5, "{12, 40, 60}", 48 if quick else 300, 120 if quick else 300)
    return sim_histories(rep, "MC_MapWalk.tla", "MC_MapWalk.cfg",
                         {"Keys": keyset(nkeys), "DigMode": '"%s"' % mode, "KSz": ksz, "VSizes": vs,
                          "GrowUntil": depth // 3, "ShrinkFrom": depth - depth // 3},
                         "MC_MapWalk T=%d %d keys (multi-run histories)" % (T, nkeys), {"cfg": {"T": T, "limit": 255}}, prefix + "-mrh-m", num, depth)


V_REF = {"name": "ref-commit-at-end-1worker", "sched": "end", "mode": "det", "workers": 1, "faults": 0}


# ---------------------------------------------------------------------------
# nested engine (Nested.tla generator / NestedTrace.tla)

def nested_stage(rep, prefix, tcfg, what, T, sizes, num, depth, maxc=6, maxe=6, persist=True, nkeys=4, kinds='{"A", "M", "C"}', mask=0, rejects=False):
    nm = "%s-nested%d" % (prefix, T)
    wf, wn = sim_histories(rep, "Nested.tla", "Nested.cfg",
                           {"MaxC": maxc, "MaxE": maxe, "Sizes": sizes, "NKeys": nkeys, "Persist": "TRUE" if persist else "FALSE", "Kinds": kinds,
                            "Rejects": "TRUE" if rejects else "FALSE"},
                           "Nested T=%d MaxC=%d MaxDepth=3 MaxE=%d Sizes=%s" % (T, maxc, maxe, sizes), {"cfg": {"T": T}}, nm, num, depth)
    base = len(rep.distinct)
    rep.distinct.update(range(base, base + wn))
    hist_stage(rep, nm, ["nested-run"] + (["-builtinmask", str(mask)] if mask else []), "nested", "NestedTrace.tla", tcfg, wf, "full", what)


def nested_bfs_stage(rep, prefix, tcfg, what, only=None, rejects=False):
    """Exhaustive small scope (MC_Nested): every heap shape of <= 3 containers x <= 2-3 elements, every live-handle set, every
    operation through every live handle; each explored transition is replayed (edge mode)."""
    quick = rep.tier == "quick"
    plans = [("a", {"MaxC": 3, "MaxE": 2, "Sizes": "{12, 110}", "Wraps": "{0}", "Persist": "FALSE"}, 80 if quick else 2),
             ("p", {"MaxC": 2, "MaxE": 2, "Sizes": "{12, 110}", "Wraps": "{0}", "Persist": "TRUE"}, 80 if quick else 2)]
    if not quick:
        plans += [("w", {"MaxC": 3, "MaxE": 2, "Sizes": "{12, 110}", "Wraps": "{0, 1}", "Persist": "FALSE"}, 6),
                  ("s", {"MaxC": 3, "MaxE": 2, "Sizes": "{12, 60, 110}", "Wraps": "{0}", "Persist": "FALSE"}, 12)]
    for (tag, consts, den) in plans:
        if only and tag not in only:
            continue
        name = "%s-nbfs-%s" % (prefix, tag)
        oi = 1
        if not quick and den >= 6:
            oi, den = den // 2, 2      # the large closures: TLC prints a sample itself
        files, n, total = model_histories(rep, "MC_Nested.tla", "MC_Nested.cfg", dict(consts, EmitEdges="TRUE", Rejects="TRUE" if rejects else "FALSE"),
                                          "MC_Nested %s (all heap shapes, all handles, all ops)" % " ".join("%s=%s" % kv for kv in sorted(consts.items())),
                                          {"cfg": {"T": 256}}, lambda ops, key: frac(key + rep.seed, 1, den), name, timeout=3000, one_in=oi)
        base = len(rep.distinct)
        rep.distinct.update(range(base, base + n))
        hist_stage(rep, name + "-edges", ["nested-run"], "nested", "NestedTrace.tla", tcfg, files, "edge", what)
        rep.stages[name + "-edges"]["selected_of_distinct_histories"] = [n, total]


def compact_family(rep, prefix, tcfg, what):
    """Scripted scenario family (DESIGN 2.2): n same-typed composite child maps with the same key set under one parent
    (array or map), commit, reload (crash or cache drop), handle to one child by lookup or mutable iteration, remove /
    overwrite / add a field through it, then read every sibling; commit and reload again."""
    hists = []
    vid = [0]
    # same-typed ARRAY siblings (array extra data is shared per type in the encoding): reload, then retype / mutate one child
    for parent in ("A", "M"):
        for n in (2, 3):
            for reload in ("crash", "dropcache"):
                for how in ("get", "iter"):
                    for victim in range(n):
                        for act in ("settype", "app", "rem"):
                            h = [["root", 1, "A"]]
                            p, nxt, sid = 1, 2, 1
                            if parent == "M":
                                h.append(["n.appc", 1, nxt, "M", 0]); p = nxt; nxt += 1
                            kids = []
                            for c in range(n):
                                if parent == "A":
                                    h.append(["n.appc", p, nxt, "A", c % 2])
                                else:
                                    h.append(["n.msetc", p, c + 1, 5, nxt, "A", c % 2])
                                for _ in range(2):
                                    h.append(["n.app", nxt, sid, 12, 0]); sid += 1
                                kids.append(nxt); nxt += 1
                            h += [["commit", "det", 1, 0], [reload]]
                            if parent == "M":
                                h.append(["n.get", 1, 0, p])
                            if how == "get":
                                h.append(["n.get", p, victim, kids[victim]] if parent == "A" else ["n.mget", p, victim + 1, 5, kids[victim]])
                            else:
                                h.append(["n.iter", p])
                            v = kids[victim]
                            h.append({"settype": ["n.settype", v, 47], "app": ["n.app", v, sid, 12, 0], "rem": ["n.rem", v, 0, False, 0]}[act])
                            h += [["commit", "nondet", 2, 0], ["crash"]]
                            hists.append(h)
    for parent in ("A", "M"):
        for n in (2, 3):
            for nk in (1, 2, 3):
                for reload in ("crash", "dropcache"):
                    for how in ("get", "iter"):
                        for victim in range(n):
                            for key in range(1, nk + 1):
                                for act in ("rem", "set", "add", "detach-rem", "settype", "settypec"):
                                    h = [["root", 1, "A"]]
                                    p = 1
                                    nxt = 2
                                    ids = iter(range(1, 1000))
                                    if parent == "M":
                                        h.append(["n.appc", 1, nxt, "M", 0])
                                        p = nxt
                                        nxt += 1
                                    kids = []
                                    for c in range(n):
                                        if parent == "A":
                                            h.append(["n.appc", p, nxt, "C", 0])
                                        else:
                                            h.append(["n.msetc", p, c + 1, 5, nxt, "C", 0])
                                        kids.append(nxt)
                                        nxt += 1
                                    for c in kids:
                                        for k in range(1, nk + 1):
                                            h.append(["n.mset", c, k, 5, next(ids), 12, 0, False, 0])
                                    h.append(["commit", "det", 1, 0])
                                    h.append([reload])
                                    if parent == "M":
                                        h.append(["n.get", 1, 0, p])
                                    if how == "get":
                                        if parent == "A":
                                            h.append(["n.get", p, victim, kids[victim]])
                                        else:
                                            h.append(["n.mget", p, victim + 1, 5, kids[victim]])
                                    else:
                                        h.append(["n.iter", p])
                                    v = kids[victim]
                                    if act == "detach-rem":
                                        # the child is removed from its parent and kept by the caller, then mutated through its handle
                                        if parent == "A":
                                            h.append(["n.rem", p, victim, True, v])
                                        else:
                                            h.append(["n.mrem", p, victim + 1, 5, True, v])
                                        h.append(["n.mrem", v, key, 5, False, 0])
                                    elif act == "settype":
                                        h.append(["n.settype", v, 46])
                                    elif act == "settypec":
                                        # a different composite type with the same key set as its siblings
                                        h.append(["n.settype", v, 107])
                                    elif act == "rem":
                                        h.append(["n.mrem", v, key, 5, False, 0])
                                    elif act == "set":
                                        h.append(["n.mset", v, key, 5, next(ids), 12, 0, False, 0])
                                    else:
                                        h.append(["n.mset", v, nk + 1, 5, next(ids), 12, 0, False, 0])
                                    h.append(["commit", "nondet", 2, 0])
                                    h.append(["crash"])
                                    hists.append(h)
    quick = rep.tier == "quick"
    if quick:
        hists = [h for h in hists if (vlib.stable_hash(json.dumps(h)) + rep.seed) % 3 == 0]
    # MANY same-typed composite children: the parent spans several data slabs, so that non-root, non-last data slabs (which carry a
    # sibling link after the shared inlined-extra-data section) hold compact maps; commit, reload, mutate one child, commit, reload
    for parent in ("A", "M"):
        for n in (10, 14):
            for nk in (1, 2):
                h = [["root", 1, "A"]]
                p, nxt = 1, 2
                ids = iter(range(1, 10000))
                if parent == "M":
                    h.append(["n.appc", 1, nxt, "M", 0]); p = nxt; nxt += 1
                kids = []
                for c in range(n):
                    if parent == "A":
                        h.append(["n.appc", p, nxt, "C", 0])
                    else:
                        h.append(["n.msetc", p, c + 1, 5, nxt, "C", 0])
                    kids.append(nxt); nxt += 1
                for c in kids:
                    for k in range(1, nk + 1):
                        h.append(["n.mset", c, k, 5, next(ids), 40, 0, False, 0])
                h += [["commit", "det", 2, 0], ["crash"]]
                if parent == "M":
                    h.append(["n.get", 1, 0, p])
                v = kids[n // 2]
                h.append(["n.get", p, n // 2, v] if parent == "A" else ["n.mget", p, n // 2 + 1, 5, v])
                h.append(["n.mset", v, 1, 5, next(ids), 12, 0, False, 0])
                h += [["commit", "nondet", 2, 0], ["crash"]]
                hists.append(h)
    files = [os.path.join(vlib.scratch(), "%s-fam-h-%d.ndjson" % (prefix, k)) for k in range(PARTS)]
    fh = [open(f, "w") for f in files]
    for f in fh:
        f.write(json.dumps({"cfg": {"T": 256}}) + "\n")
    for i, h in enumerate(hists):
        fh[i % PARTS].write(json.dumps(h) + "\n")
    for f in fh:
        f.close()
    rep.sample({"compact_family_history": hists[0]})
    base = len(rep.distinct)
    rep.distinct.update(range(base, base + len(hists)))
    hist_stage(rep, prefix + "-compact-family", ["nested-run"], "nested", "NestedTrace.tla", tcfg, files, "full", what)


def big_slab_family(rep, prefix, tcfg, what):
    """Scripted family at large slab sizes (8 KiB, 32 KiB): several hundred small inlined children in ONE slab (the shared
    inlined-extra-data section then has several hundred entries: map extra data is never de-duplicated), commit, reload, mutate one."""
    for T in (8192, 32768):
        hists = []
        for kind in ("M", "A"):
            for n in (250, 300):
                h = [["root", 1, "A"]]
                for c in range(n):
                    h.append(["n.appc", 1, 2 + c, kind, 0])
                h += [["commit", "det", 2, 0], ["crash"], ["n.get", 1, n - 1, n + 1]]
                h.append(["n.mset", n + 1, 1, 5, 1, 12, 0, False, 0] if kind == "M" else ["n.app", n + 1, 1, 12, 0])
                h.append(["commit", "nondet", 2, 0])
                hists.append(h)
        f = os.path.join(vlib.scratch(), "%s-bigslab-%d.ndjson" % (prefix, T))
        with open(f, "w") as fh:
            fh.write(json.dumps({"cfg": {"T": T}}) + "\n")
            for h in hists:
                fh.write(json.dumps(h) + "\n")
        base = len(rep.distinct)
        rep.distinct.update(range(base, base + len(hists)))
        hist_stage(rep, "%s-bigslab-%d" % (prefix, T), ["nested-run", "-tail", "4"], "nested", "NestedTrace.tla", tcfg, [f], "tail", what)


def many_types_family(rep, prefix, tcfg, what):
    """Scripted family: ONE slab whose inlined children use 26-40 distinct type infos, each by an inlined array and an inlined map
    (a type info used twice is written once and referred to by its index in the shared section: indexes above 23 take two bytes);
    commit, reload, read everything, mutate one child, commit, reload."""
    T = 2048
    hists = []
    for parent in ("A", "M"):
        for ntypes in (26, 31, 40):
            h = [["root", 1, "A"]]
            p, nxt = 1, 2
            if parent == "M":
                h.append(["n.appc", 1, nxt, "M", 0]); p = nxt; nxt += 1
            kids = []
            for i in range(ntypes):
                for kind in ("A", "M"):
                    if parent == "A":
                        h.append(["n.appc", p, nxt, kind, 0])
                    else:
                        h.append(["n.msetc", p, len(kids) + 1, 5, nxt, kind, 0])
                    h.append(["n.settype", nxt, 30 + i])
                    kids.append(nxt); nxt += 1
            h += [["commit", "det", 2, 0], ["crash"]]
            if parent == "M":
                h.append(["n.get", 1, 0, p])
            v = len(kids) - 2
            h.append(["n.get", p, v, kids[v]] if parent == "A" else ["n.mget", p, v + 1, 5, kids[v]])
            h += [["n.app", kids[v], 1, 12, 0], ["commit", "nondet", 2, 0], ["crash"]]
            hists.append(h)
    f = os.path.join(vlib.scratch(), "%s-manytypes.ndjson" % prefix)
    with open(f, "w") as fh:
        fh.write(json.dumps({"cfg": {"T": T}}) + "\n")
        for h in hists:
            fh.write(json.dumps(h) + "\n")
    base = len(rep.distinct)
    rep.distinct.update(range(base, base + len(hists)))
    hist_stage(rep, "%s-manytypes" % prefix, ["nested-run", "-tail", "8"], "nested", "NestedTrace.tla", tcfg, [f], "tail", what)


def nested_stages(rep, prefix, tcfg, what):
    quick = rep.tier == "quick"
    plans = [(256, "{12, 60, 110}", 200 if quick else 1500, 100 if quick else 200, 6, 6),
             (256, "{12, 40, 100}", 120 if quick else 1000, 120 if quick else 250, 8, 8)]
    if not quick:
        plans += [(512, "{12, 120, 240}", 600, 250, 8, 8), (1024, "{12, 250, 490}", 300, 250, 8, 8)]
    for (T, sizes, num, depth, maxc, maxe) in plans:
        nested_stage(rep, "%s-%s" % (prefix, sizes.strip("{}").replace(", ", "_")), tcfg, what, T, sizes, num, depth, maxc, maxe)
    # same-typed composite maps with the same small key set: siblings share the compact encoding when inlined
    nested_stage(rep, prefix + "-compact", tcfg, what, 256, "{12}", 120 if quick else 1000, 100 if quick else 200, 7, 4, nkeys=2, kinds='{"C"}')
    # every map of the heap under first-level collisions (built-in digester, first-level digest masked to one bit): children that
    # live inside inline / external collision groups and grow or shrink through their handles
    nested_stage(rep, prefix + "-collide", tcfg, what, 256, "{12, 40}", 100 if quick else 1000, 120 if quick else 250, 8, 6, nkeys=6, kinds='{"M", "A"}', mask=1)
    compact_family(rep, prefix, tcfg, what)
    nested_bfs_stage(rep, prefix, tcfg, what)
    rep.exhaustive = False


def check_C10(rep):
    rep.rule = ("TLC simulates walks of the Nested model (heap of up to 6-8 arrays and maps, depth 3, wrapped and unwrapped children, any "
                "number of live handles under the handle-tree discipline, mutation through any live handle, parent restructured in between, "
                "children crossing the inline limits both ways, detach/keep/dispose/re-attach, commit / cache drop / crash); each walk is "
                "replayed into the real code; after every step everything read through every root must expand to the model forest "
                "(ReadsThrough), after every commit a brand-new storage must read the same forest from the registers (Persisted), every "
                "container at every depth must satisfy TreeInv (AllValid) and be inlined exactly when it fits (InlineRule)")
    rep.assumptions += ["handle-tree discipline (DESIGN 4.2): one live handle object per container; re-acquiring a handle retires the handles obtained through the old one; cache drops and reopenings retire non-root handles"]
    nested_stages(rep, "c10", "NestedTrace_C10.cfg", "nested container diverges from the heap model")


def check_C11(rep):
    rep.rule = ("same walks as C10 (they contain removal / overwrite of children that are kept by the caller, mutation of the detached "
                "child through its old handle, re-attachment elsewhere, parent mutated in between); verdict predicates: ReadsThrough (the "
                "former parent's content follows the model, which changes only the detached container), OtherRootsUntouched (the slabs of "
                "every other root are identical before and after a mutation of a detached container), RootsStandalone (a kept container is "
                "an independently stored root value), Persisted (it reloads by its identifier)")
    nested_stages(rep, "c11", "NestedTrace_C11.cfg", "detached container / stale handle affects another root")


def check_C09(rep):
    rep.rule = ("after every operation of array, map and nested histories (the harness disposes of or keeps, as the TLC history dictates, every "
                "value handed back) the set of slab identifiers in the storage view must equal the set reachable from the roots held by the caller")
    quick = rep.tier == "quick"
    consts = {"EmitEdges": "TRUE", "MaxElems": 5 if quick else 6, "T": 256}
    files, n, total = model_histories(rep, "MC_Array.tla", "MC_Array.cfg", consts, "MC_Array T=256 MaxElems=%d" % consts["MaxElems"],
                                      {"cfg": {"T": 256}}, lambda ops, key: frac(key + rep.seed, 1, 4 if quick else 1), "c09-mc")
    rep.distinct.update(range(n))
    hist_stage(rep, "c09-array-edges", ["array-run"], "array", "ArrayTrace.tla", "ArrayTrace_C09.cfg", files, "edge", "slab leak or dangling reference")
    map_collide_stage(rep, "MapTrace_C09.cfg", "slab leak or dangling reference", "c09", 255, 3, (1, 24) if quick else (1, 2))
    map_walk_stage(rep, "MapTrace_C09.cfg", "slab leak or dangling reference", "c09", 256, 24, "clustered", 5, "{12, 40, 100}", 107, 16 if quick else 300, 120 if quick else 300)
    nested_stages(rep, "c09", "NestedTrace_C09.cfg", "slab leak or dangling reference")
    # every transition of the composed map algorithm executed on committed slabs, then committed: the registers alone must resolve
    # (values of 140 bytes live in slabs of their own: a stale register then holds a reference to a released slab)
    map_full_stage(rep, "MapTrace_C09.cfg", "slab leak or dangling reference in the committed registers", "c09", wrap=True, vs_triples="{101, 140}")


def probe_cmd(base, probes, rep):
    return [base, "-probe", probes, "-seed", str(rep.seed)]


def array_probe_stages(rep, prefix, tcfg, what, probes, maxel_q=4, maxel_t=6, edge_den_q=2, walks=True, sizes="{19, 60, 117, 130}", edge_den_t=3):
    quick = rep.tier == "quick"
    maxel = maxel_q if quick else maxel_t
    consts = {"EmitEdges": "TRUE", "MaxElems": maxel, "T": 256, "Sizes": sizes}
    files, n, total = model_histories(rep, "MC_Array.tla", "MC_Array.cfg", consts,
                                      "MC_Array T=256 Sizes=%s MaxElems=%d (probes at the end of every history)" % (sizes, maxel),
                                      {"cfg": {"T": 256}}, lambda ops, key: frac(key + rep.seed, 1, edge_den_q if quick else edge_den_t), prefix + "-amc")
    base = len(rep.distinct)
    rep.distinct.update(range(base, base + n))
    hist_stage(rep, prefix + "-array-edges", probe_cmd("array-run", probes, rep), "array", "ArrayTrace.tla", "ArrayTrace_%s.cfg" % tcfg, files, "edge", what)
    rep.stages[prefix + "-array-edges"]["selected_of_distinct_histories"] = [n, total]
    if walks:
        for (T, sz, num, depth) in ([(256, "{19, 60, 117, 130}", 16, 70)] if quick else
                                    [(256, "{19, 60, 117, 130}", 200, 200), (512, "{30, 120, 245, 300}", 100, 300), (1024, "{40, 250, 501, 700}", 40, 400)]):
            nm = "%s-array-walk%d" % (prefix, T)
            wf, wn = sim_histories(rep, "MC_Array.tla", "MC_Array_sim.cfg",
                                   {"T": T, "Sizes": sz, "WithReads": "FALSE", "AllowPop": "FALSE", "MaxElems": 100000,
                                    "GrowUntil": depth, "ShrinkFrom": 1000000},
                                   "MC_Array T=%d growth walks" % T, {"cfg": {"T": T}}, nm, num, depth)
            base = len(rep.distinct)
            rep.distinct.update(range(base, base + wn))
            hist_stage(rep, nm, probe_cmd("array-run", probes, rep), "array", "ArrayTrace.tla", "ArrayTrace_%s.cfg" % tcfg, wf, "edge", what)
    return quick


def map_probe_refs_stage(rep, prefix, tcfg, what, probes):
    """Two keys under every digest assignment over {0,1}^4, values of 12 and 120 bytes (120: stored in a slab of its own, the element is
    a reference): single elements, inline groups and full-collision lists holding references; probes at the end of every history."""
    quick = rep.tier == "quick"
    consts = {"EmitEdges": "TRUE", "Limit": 255, "Keys": keyset(2), "VSizes": "{12, 120}"}
    files, n, total = model_histories(rep, "MC_Map.tla", "MC_Map.cfg", consts,
                                      "MC_Map 2 keys, values {12, 120 (reference)}, all digest assignments over {0,1}^4 (probes at the end of every history)",
                                      {"cfg": {"T": 256, "limit": 255}}, (lambda ops, key: frac(key + rep.seed, 1, 4)) if quick else None, prefix + "-mmcr")
    base = len(rep.distinct)
    rep.distinct.update(range(base, base + n))
    hist_stage(rep, prefix + "-map-refs-edges", probe_cmd("map-run", probes, rep), "map", "MapTrace.tla", "MapTrace_%s.cfg" % tcfg, files, "edge", what)
    rep.stages[prefix + "-map-refs-edges"]["selected_of_distinct_histories"] = [n, total]


def map_probe_stages(rep, prefix, tcfg, what, probes, walks=True, vsizes="{12, 40, 60}"):
    quick = rep.tier == "quick"
    consts = {"EmitEdges": "TRUE", "Limit": 255, "Keys": keyset(3)}
    files, n, total = model_histories(rep, "MC_Map.tla", "MC_Map.cfg", consts,
                                      "MC_Map 3 keys, all digest assignments over {0,1}^4 (probes at the end of every history)",
                                      {"cfg": {"T": 256, "limit": 255}}, lambda ops, key: frac(key + rep.seed, 1, 240 if quick else 8), prefix + "-mmc")
    base = len(rep.distinct)
    rep.distinct.update(range(base, base + n))
    hist_stage(rep, prefix + "-map-edges", probe_cmd("map-run", probes, rep), "map", "MapTrace.tla", "MapTrace_%s.cfg" % tcfg, files, "edge", what)
    rep.stages[prefix + "-map-edges"]["selected_of_distinct_histories"] = [n, total]
    if walks:
        for (T, nkeys, mode, ksz, vs, num, depth) in ([(256, 40, "spread", 5, vsizes, 14, 50), (256, 24, "clustered", 5, "{12, 40}", 10, 50)] if quick else
                                                     [(256, 40, "spread", 5, vsizes, 500, 120), (256, 24, "clustered", 5, "{12, 40}", 300, 100),
                                                      (512, 60, "spread", 9, "{12, 100, 200}", 200, 150)]):
            nm = "%s-map-walk%d-%s" % (prefix, T, mode)
            wf, wn = sim_histories(rep, "MC_MapWalk.tla", "MC_MapWalk.cfg",
                                   {"Keys": keyset(nkeys), "DigMode": '"%s"' % mode, "KSz": ksz, "VSizes": vs,
                                    "GrowUntil": depth, "ShrinkFrom": 1000000},
                                   "MC_MapWalk T=%d %d keys %s digests (growth walks)" % (T, nkeys, mode), {"cfg": {"T": T, "limit": 255}}, nm, num, depth)
            base = len(rep.distinct)
            rep.distinct.update(range(base, base + wn))
            hist_stage(rep, nm, probe_cmd("map-run", probes, rep), "map", "MapTrace.tla", "MapTrace_%s.cfg" % tcfg, wf, "edge", what)


def check_C13(rep):
    rep.rule = ("at the end of every TLC-explored history (array: all shapes up to 4-6 elements; map: all digest assignments over {0,1}^4 of 3 keys, "
                "sampled) and of simulated growth walks (multi-level trees, collision groups across slabs) the harness runs every enumeration "
                "flavour (read-only, mutable, iterator objects, keys-only, values-only, loaded-values, Get of every index), all range bounds "
                "incl. invalid ones, a mutable iteration that overwrites the current element at a random subset of positions with sizes that "
                "move slabs, and - after a commit - loaded-value iteration in brand-new storages with every subset of slabs loaded; the trace "
                "specification requires each to equal the canonical order of the model (arrays: index order; maps: ascending digest vector, "
                "insertion order among full collisions), ranges to be the slice or the right error, partial loads to be in-order subsequences; "
                "bulk pops (reverse order) are ordinary history operations")
    what = "iteration does not yield the container's elements once in canonical order"
    array_probe_stages(rep, "c13", "C13", what, "iter,mutiter,partial")
    map_probe_stages(rep, "c13", "C13", what, "iter,mutiter,partial")
    deep_map_probe_stage(rep, "c13", "C13", what, "iter,mutiter")
    deep_array_probe_stage(rep, "c13", "C13", what, "iter,mutiter")
    # every enumeration flavour over collision groups (inline, external, full-collision lists) inside multi-slab trees
    map_full_stage(rep, "MapTrace_C13.cfg", what, "c13", probes="iter,mutiter,partial", scale=5)
    # every enumeration flavour with the k-th ledger read failing: a call that reports success has yielded every element
    exterr_stage(rep, "ExtErrTrace_C13.cfg", "c13-exterr")
    rep.exhaustive = False


def check_C17(rep):
    rep.rule = ("(a) ArrayTree.tla transcribes NewArrayFromBatchData (TBatch); (b) at the end of every TLC-explored history - including an "
                "append-only configuration that enumerates every element-size stream up to 6-7 elements over sizes on the inline / half-slab "
                "edges - and of simulated growth walks, the harness bulk-builds a new container from the source's iterator (maps: with the "
                "source's seed) and copies it with CopyNonRefSimple; the trace specification requires equal content and order, a structure valid "
                "by TreeInv, a different identity, CanCopyNonRefSimple true exactly for single-slab containers of plain values (and then success), "
                "and, after mutating and disposing of the result, an unaffected source and no leaked slab; (c) byte slice <-> byte array "
                "conversion around the single-slab fast-path boundary")
    what = "bulk build / copy result is not an equivalent, valid, independent value"
    array_probe_stages(rep, "c17", "C17", what, "batch,copy")
    quick = rep.tier == "quick"
    # every size stream (append-only histories), sizes on the edges: tail rebalance / merge of the bulk builder
    maxel = 6 if quick else 7
    consts = {"EmitEdges": "TRUE", "MaxElems": maxel, "T": 256, "Sizes": "{8, 20, 60, 70, 117}", "AppendOnly": "TRUE"}
    files, n, total = model_histories(rep, "MC_Array.tla", "MC_Array.cfg", consts,
                                      "MC_Array append-only: all size streams over {8,20,60,70,117} up to %d elements" % maxel,
                                      {"cfg": {"T": 256}}, None, "c17-streams")
    base = len(rep.distinct)
    rep.distinct.update(range(base, base + n))
    hist_stage(rep, "c17-array-streams", probe_cmd("array-run", "batch", rep), "array", "ArrayTrace.tla", "ArrayTrace_C17.cfg", files, "edge", what)
    map_probe_stages(rep, "c17", "C17", what, "batch,copy", vsizes="{12, 40, 70, 95}")
    # full-collision lists and inline groups whose values are references (the copy must not be offered)
    map_probe_refs_stage(rep, "c17", "C17", what, "batch,copy")
    # sources with collision groups inside multi-slab trees (composed layer C): bulk build and copy of every explored shape
    map_full_stage(rep, "MapTrace_C17.cfg", what, "c17", probes="batch,copy", scale=2)
    # short growth-only walks with element sizes on the edges (an element at the inline limit at the tail of a slab,
    # an underflowing trailing slab): tail rebalance / merge of the map bulk builder
    map_stream_stage(rep, "c17", "MapTrace_C17.cfg", what)
    # sources driven with the built-in (pooled) digester whose first level is masked: real first-level collisions in the bulk builder
    map_builtin_stage(rep, "MapTrace_C17.cfg", what, "c17", 256, 24, 20 if quick else 300, 40 if quick else 80, mask=3, probes="batch,copy")
    for (depth, num) in ([(6, 150), (9, 150)] if quick else [(5, 1500), (7, 2500), (9, 2500), (12, 1500)]):
        nm = "c17-map-streams%d" % depth
        wf, wn = sim_histories(rep, "MC_MapWalk.tla", "MC_MapWalk.cfg",
                               {"Keys": keyset(12), "DigMode": '"spread"', "KSz": 5, "VSizes": "{14, 39, 74, 101}",
                                "GrowUntil": 1000, "ShrinkFrom": 1000000},
                               "MC_MapWalk growth-only streams of %d inserts, values {14,39,74,101}" % depth, {"cfg": {"T": 256, "limit": 255}}, nm, num, depth)
        base = len(rep.distinct)
        rep.distinct.update(range(base, base + wn))
        hist_stage(rep, nm, probe_cmd("map-run", "batch", rep), "map", "MapTrace.tla", "MapTrace_C17.cfg", wf, "edge", what)
    bytes_stage(rep)
    rep.exhaustive = False


def bytes_stage(rep, tcfg="BytesTrace_C17.cfg", stage="c17-bytes"):
    exe = vlib.build_harness()
    out = os.path.join(vlib.scratch(), stage + "-trace-0.ndjson")
    p = subprocess.run([exe, "bytes-run", "-out", out, "-seed", str(rep.seed), "-tier", rep.tier], capture_output=True, text=True)
    if p.returncode != 0:
        raise Inconclusive("bytes-run failed: " + p.stderr[-2000:])
    summ = vlib.last_json(p.stdout)
    results = vlib.validate_traces([out], "BytesTrace.tla", tcfg, stage + "-tv")

    def describe(res, rec, trace, why):
        sig = "bytes:%s:%s" % (rec["ev"], why)
        return sig, "byte slice / byte array conversion: case len=%d est=%d T=%d rejected by %s" % (rec["len"], rec["est"], rec["T"], why), \
            {"engine": "bytes", "seed": rep.seed, "tier": rep.tier, "case": {k: rec[k] for k in ("len", "est", "T")}, "trace": trace}

    nrec = handle_results(rep, results, "BytesTrace.tla", tcfg, describe, bytes_replay, stage)
    rep.traces += nrec
    rep.evaluations += nrec
    rep.stages[stage] = {"cases": summ.get("cases", nrec)}


def bytes_replay(payload):
    exe = vlib.build_harness()
    d = os.path.join(vlib.scratch(), "replay-%d" % random.randrange(1 << 30))
    os.makedirs(d)
    out = os.path.join(d, "t.ndjson")
    c = payload["case"]
    p = subprocess.run([exe, "bytes-run", "-out", out, "-seed", str(payload["seed"]), "-tier", payload["tier"],
                        "-only", "%d,%d,%d" % (c["len"], c["est"], c["T"])], capture_output=True, text=True)
    if p.returncode != 0:
        raise Inconclusive("bytes-run failed: " + p.stderr[-2000:])
    res = vlib.validate_traces([out], payload["trace_module"], payload["trace_cfg"], os.path.basename(d) + "-tv")
    for r in res:
        if "error" in r:
            raise Inconclusive(r["error"])
    return any(not r["ok"] for r in res)


def check_C18(rep):
    rep.rule = ("(a) every TLC-explored array history (all shapes up to 4-6 elements) includes out-of-range Get/Set/Insert/Remove at count, "
                "count+1 and beyond 2^32 with values of every size (incl. over-limit values that would allocate a slab), every map history "
                "lookups / removals of absent keys and inserts refused by the collision limit (limits 0, 1, 2); the trace specification requires the "
                "exact error class and category and that the projected slabs, the identifiers in storage, the write-set size and the ledger call "
                "counter are those before the request; (b) invalid ranges (C13 probes); (c) multi-run: the history with and without its rejected "
                "requests commits byte-identical registers; (d) failures injected into the ledger read, the key comparator and the hash-input "
                "provider at every call made during lookups must surface as external errors")
    quick = rep.tier == "quick"
    what = "rejected request mis-categorised or leaves a trace"
    array_probe_stages(rep, "c18", "C18", what, "iter", walks=False)
    for lim in (255, 1, 0):
        map_collide_stage(rep, "MapTrace_C18.cfg", what, "c18", lim, 3, (1, 40) if quick else (1, 4))
    variants = [V_REF, {"name": "without-rejected-requests", "sched": "end", "mode": "det", "workers": 1, "faults": 0, "skiprejected": True}]
    for kind in ("array", "map"):
        files, n = walk_files(rep, "c18", kind, quick)
        base = len(rep.distinct)
        rep.distinct.update(range(base, base + n))
        multirun_stage(rep, "c18-multirun-" + kind, kind, files, variants, "MultiRunTrace_C04.cfg", "rejected requests change the committed registers")
    exterr_stage(rep)
    # requests rejected through handles to NESTED containers (any depth): the error, and no trace in the container, its ancestors,
    # the other roots and the write set
    nwhat = "request rejected through a nested handle is mis-categorised or leaves a trace"
    nested_stage(rep, "c18", "NestedTrace_C18.cfg", nwhat, 256, "{12, 60, 110}", 100 if quick else 1000, 100 if quick else 200, 6, 6, rejects=True)
    nested_bfs_stage(rep, "c18", "NestedTrace_C18.cfg", nwhat, only=("a",), rejects=True)
    rep.exhaustive = False


def exterr_stage(rep, tcfg="ExtErrTrace_C18.cfg", stage="c18-exterr"):
    exe = vlib.build_harness()
    out = os.path.join(vlib.scratch(), stage + "-trace-0.ndjson")
    p = subprocess.run([exe, "exterr-run", "-out", out, "-seed", str(rep.seed), "-tier", rep.tier], capture_output=True, text=True)
    if p.returncode != 0:
        raise Inconclusive("exterr-run failed: " + p.stderr[-2000:])
    summ = vlib.last_json(p.stdout)
    results = vlib.validate_traces([out], "ExtErrTrace.tla", tcfg, stage + "-tv")

    def describe(res, rec, trace, why):
        sig = "exterr:%s:%s:%s" % (rec["op"], rec["inject"], why)
        return sig, "error injected into %s at call %d during %s is not reported as an external error" % (rec["inject"], rec["k"], rec["op"]), \
            {"engine": "exterr", "seed": rep.seed, "tier": rep.tier, "trace": trace}

    def confirm(payload):
        p2 = subprocess.run([exe, "exterr-run", "-out", out + ".2", "-seed", str(payload["seed"]), "-tier", payload["tier"]], capture_output=True, text=True)
        if p2.returncode != 0:
            raise Inconclusive("exterr-run failed")
        res = vlib.validate_traces([out + ".2"], payload["trace_module"], payload["trace_cfg"], stage + "-tv2-%d" % random.randrange(1 << 20))
        return any(not r["ok"] for r in res)

    nrec = handle_results(rep, results, "ExtErrTrace.tla", tcfg, describe, confirm, stage)
    rep.traces += nrec
    rep.evaluations += nrec
    rep.stages[stage] = summ


def check_C16(rep):
    rep.rule = ("(a) CommitConc.tla (PlusCal transcription of the goroutine skeleton of FastCommit / NondeterministicFastCommit / BatchPreload: "
                "closed job queue, result queue, done channel, deferred wait-then-close) is model-checked for every interleaving of 1..3 workers x 3-4 "
                "jobs x an encoding error or a failing ledger call at any position: no deadlock, the call returns (liveness under weak fairness), "
                "no send on a closed channel, the result queue never blocks, the outcome is a function of the inputs (SeqEqual); TLC emits every "
                "distinct arrival order of results; (b) each emitted schedule is forced on the real functions through the blocking verif hook and "
                "compared with the one-worker run (returns, same error, same registers / cache keys / write-set keys; convergence after retry), plus "
                "free-running repetitions with jitter and 2..64 workers and larger job counts; (c) 16 client goroutines with private storages run "
                "map / array / commit workloads concurrently: the pool hook events must be accepted by Pools.tla (no hand-out of an owned object, no use "
                "after put, no double put) and each client's results and registers must equal its solo run; (d) the same workloads run under the Go "
                "race detector without the event hook (GOMAXPROCS 2, 4, 16): a race report is a violation")
    quick = rep.tier == "quick"
    nj = 3 if quick else 4
    combos = []
    for mode in ("det", "relaxed"):
        for w in (1, 2, 3):
            for (ee, fc) in [(0, 0)] + [(k, 0) for k in range(1, nj + 1)] + [(0, k) for k in range(1, nj + 1)]:
                if quick and (ee > 2 or fc > 2):
                    continue
                combos.append((mode, w, ee, fc))

    def run_one(c):
        mode, w, ee, fc = c
        name = "c16-cc-%s-%d-%d-%d" % (mode, w, ee, fc)
        d = vlib.tlc_dir(name)
        text = open(os.path.join(d, "CommitConc.cfg")).read()
        for k, v in {"W": w, "NJobs": nj, "Cap": nj, "Mode": '"%s"' % mode, "EncErr": ee, "FailCall": fc, "EmitSchedules": "TRUE"}.items():
            text = re.sub(r"(?m)^(\s*%s\s*=\s*).*$" % k, lambda m: m.group(1) + str(v), text)
        open(os.path.join(d, "CommitConc.cfg"), "w").write(text)
        so = os.path.join(d, "stdout.txt")
        r = vlib.run_tlc(d, "CommitConc.tla", "CommitConc.cfg", workers=2, timeout=900, stdout_file=so, heap="2g")
        lines = list(set(vlib.emitted_lines(so)))
        shutil.rmtree(d, ignore_errors=True)
        return c, r, lines
    scheds = set()
    with concurrent.futures.ThreadPoolExecutor(max_workers=6) as ex:
        for c, r, lines in ex.map(run_one, combos):
            if not r.ok:
                raise Inconclusive("CommitConc %s failed in the MODEL: %s" % (c, r.out[-1500:]))
            rep.add_model("CommitConc mode=%s W=%d NJobs=%d EncErr=%d FailCall=%d (all interleavings, liveness)" % (c[0], c[1], nj, c[2], c[3]), r)
            for s in lines:
                j = json.loads(s)
                scheds.add(json.dumps({"w": j["w"], "n": j["n"], "mode": j["mode"], "encerr": j["encerr"], "failcall": j["failcall"], "order": j["order"]}))
    # larger job counts (free-running only): more jobs than workers + queue slots, faults early and late
    extra = []
    for mode in ("det", "relaxed"):
        for (w, n) in ((2, 6), (3, 9), (2, 12)) if quick else ((2, 6), (3, 9), (2, 12), (4, 17), (7, 30)):
            for (ee, fc) in ((0, 0), (0, 1), (0, 2), (0, n), (2, 0), (n, 0)):
                extra.append(json.dumps({"w": w, "n": n, "mode": mode, "encerr": ee, "failcall": fc, "order": []}))
    allc = sorted(scheds) + extra
    if quick and len(allc) > 400:
        allc = [c for c in allc if frac(vlib.stable_hash(c) + rep.seed, 1, 1 + len(allc) // 400)] + extra
    files = [os.path.join(vlib.scratch(), "c16-sched-%d.ndjson" % k) for k in range(PARTS)]
    fh = [open(f, "w") for f in files]
    for f in fh:
        f.write(json.dumps({"cfg": {}}) + "\n")
    for i, c in enumerate(allc):
        fh[i % PARTS].write(c + "\n")
    for f in fh:
        f.close()
    rep.sample({"schedule": json.loads(allc[0])})
    rep.distinct.update(range(len(allc)))

    def sig(rec, trace, why, hist):
        return "conc:%s:%s" % (rec["case"]["mode"], why)
    hist_stage(rep, "c16-schedules", ["conc-run", "-seed", str(rep.seed), "-free", "2" if quick else "6"], "conc", "ConcTrace.tla", "ConcTrace_C16.cfg",
               files, "full", "parallel commit differs from the one-worker run", sigfn=sig)
    rep.stages["c16-schedules"]["schedules_from_tlc"] = len(scheds)
    # (a') BatchPreload: its own skeleton (PreloadConc.tla: decoders started before the jobs are sent, job queue closed by a deferred
    # close at function return, LIFO defers), every interleaving; schedules forced on the real BatchPreload
    pcombos = []
    for w in (1, 2, 3):
        for (rf, de) in [(0, 0)] + [(k, 0) for k in range(1, nj + 2)] + [(0, k) for k in range(1, nj + 1)]:
            if quick and (rf in (2, 3) or de == 2):
                continue
            pcombos.append((w, rf, de))

    def run_pre(c, order="lifo", emit=True):
        w, rf, de = c
        name = "c16-pc-%d-%d-%d-%s" % (w, rf, de, order)
        d = vlib.tlc_dir(name)
        text = open(os.path.join(d, "PreloadConc.cfg")).read()
        for k, v in {"W": w, "NJobs": nj, "Pad": 1, "ReadFail": rf, "DecErr": de, "DeferOrder": '"%s"' % order,
                     "EmitSchedules": "TRUE" if emit else "FALSE"}.items():
            text = re.sub(r"(?m)^(\s*%s\s*=\s*).*$" % k, lambda m: m.group(1) + str(v), text)
        open(os.path.join(d, "PreloadConc.cfg"), "w").write(text)
        so = os.path.join(d, "stdout.txt")
        r = vlib.run_tlc(d, "PreloadConc.tla", "PreloadConc.cfg", workers=2, timeout=900, stdout_file=so, heap="2g")
        lines = list(set(vlib.emitted_lines(so)))
        shutil.rmtree(d, ignore_errors=True)
        return c, r, lines
    pscheds = set()
    with concurrent.futures.ThreadPoolExecutor(max_workers=6) as ex:
        for c, r, lines in ex.map(run_pre, pcombos):
            if not r.ok:
                raise Inconclusive("PreloadConc %s failed in the MODEL: %s" % (c, r.out[-1500:]))
            rep.add_model("PreloadConc W=%d NJobs=%d ReadFail=%d DecErr=%d (all interleavings, liveness)" % (c[0], nj, c[1], c[2]), r)
            for s in lines:
                j = json.loads(s)
                # each schedule with an empty read cache and with two slabs cached beforehand (the model's PreCached)
                pscheds.add(json.dumps(dict(j, pre=0)))
                pscheds.add(json.dumps(dict(j, pre=2)))
    # non-vacuity of the model: with the two deferred steps in the opposite order TLC must find the deadlock
    _, rdead, _ = run_pre((2, 0, 0), order="fifo", emit=False)
    if "Deadlock reached" not in rdead.out and "Temporal properties were violated" not in rdead.out:
        raise Inconclusive("PreloadConc with reversed defers should deadlock in the model but did not: " + rdead.out[-800:])
    rep.note("PreloadConc with the deferred steps in the opposite (FIFO) order: TLC finds the deadlock, as it must (model is not vacuous)")
    pall = sorted(pscheds)
    for (w, n) in ((2, 6), (4, 13)) if quick else ((2, 6), (4, 13), (7, 40)):
        for (rf, de) in ((0, 0), (1, 0), (n, 0), (n + 3, 0), (0, 1), (0, n)):
            pall.append(json.dumps({"w": w, "n": n, "readfail": rf, "decerr": de, "order": [], "pre": (n // 2) if rf == 0 else 0}))
    pfiles = [os.path.join(vlib.scratch(), "c16-psched-%d.ndjson" % k) for k in range(PARTS)]
    fh = [open(f, "w") for f in pfiles]
    for f in fh:
        f.write(json.dumps({"cfg": {}}) + "\n")
    for i, c in enumerate(pall):
        fh[i % PARTS].write(c + "\n")
    for f in fh:
        f.close()
    base = len(rep.distinct)
    rep.distinct.update(range(base, base + len(pall)))

    def psig(rec, trace, why, hist):
        return "preload:%s" % why
    hist_stage(rep, "c16-preload-schedules", ["preload-run", "-seed", str(rep.seed), "-free", "2" if quick else "6"], "conc", "PreloadTrace.tla",
               "PreloadTrace_C16.cfg", pfiles, "full", "parallel BatchPreload differs from the model's outcome / the one-worker call", sigfn=psig)
    rep.stages["c16-preload-schedules"]["schedules_from_tlc"] = len(pscheds)
    # (c) pools
    exe = vlib.build_harness()
    outs = []
    for k in range(2 if quick else 8):
        out = os.path.join(vlib.scratch(), "c16-pools-trace-%d.ndjson" % k)
        p = subprocess.run([exe, "pools-run", "-out", out, "-seed", str(rep.seed * 100 + k), "-g", "16", "-steps", "120" if quick else "400"],
                           capture_output=True, text=True, env=dict(os.environ, GOMAXPROCS=str([16, 4, 2, 8][k % 4])))
        if p.returncode != 0:
            raise Inconclusive("pools-run failed: " + p.stderr[-2000:])
        outs.append(out)
    results = vlib.validate_traces(outs, "Pools.tla", "Pools_C16.cfg", "c16-pools-tv")

    def describe(res, rec, trace, why):
        part = res["part"]
        s = "pools:%s:%s" % (rec.get("kind") or rec["ev"], why)
        return s, "pool discipline / client independence violated at event %s %s (goroutine %s, object %s): %s" % (rec["ev"], rec.get("kind"), rec.get("g"), rec.get("o"), why), \
            {"engine": "pools", "seed": rep.seed * 100 + part, "steps": 120 if quick else 400, "trace": trace[-30:]}
    nrec = handle_results(rep, results, "Pools.tla", "Pools_C16.cfg", describe, pools_replay, "c16-pools")
    rep.traces += len(outs)
    rep.stages["c16-pools"] = {"runs": len(outs), "records": nrec}
    # (d) race detector on free-running executions (no event hook: it would add synchronisation)
    rexe = vlib.build_harness(race=True)
    races = 0
    runs = 0
    for gmp in (["2", "16"] if quick else ["2", "4", "16", "7"]):
        for cmd in ([rexe, "pools-run", "-out", os.path.join(vlib.scratch(), "race-p.ndjson"), "-seed", str(rep.seed), "-events=false", "-g", "16", "-steps", "100" if quick else "300"],
                    [rexe, "conc-run", "-in", files[0], "-out", os.path.join(vlib.scratch(), "race-c.ndjson"), "-seed", str(rep.seed), "-free", "2"]):
            runs += 1
            p = subprocess.run(cmd, capture_output=True, text=True, env=dict(os.environ, GOMAXPROCS=gmp, GORACE="halt_on_error=0"), timeout=1800)
            if "WARNING: DATA RACE" in p.stderr:
                races += 1
                s = "race:%s" % cmd[1]
                if not any(v["signature"] == s for v in rep.violations):
                    path = vlib.write_replay(rep.prop, {"property": rep.prop, "engine": "race", "cmd": cmd[1:], "GOMAXPROCS": gmp, "signature": s,
                                                        "report": p.stderr[:6000]})
                    rep.violations.append({"signature": s, "what": "Go race detector report during %s (GOMAXPROCS=%s)" % (cmd[1], gmp), "replay": path})
            elif p.returncode != 0:
                raise Inconclusive("race run failed (%d): %s" % (p.returncode, p.stderr[-2000:]))
    rep.stages["c16-race"] = {"runs": runs, "race_reports": races}
    rep.exhaustive = False


def pools_replay(payload):
    exe = vlib.build_harness()
    d = os.path.join(vlib.scratch(), "replay-%d" % random.randrange(1 << 30))
    os.makedirs(d)
    for attempt in range(3):
        out = os.path.join(d, "t%d.ndjson" % attempt)
        p = subprocess.run([exe, "pools-run", "-out", out, "-seed", str(payload["seed"]), "-g", "16", "-steps", str(payload["steps"])], capture_output=True, text=True)
        if p.returncode != 0:
            raise Inconclusive("pools-run failed")
        res = vlib.validate_traces([out], payload["trace_module"], payload["trace_cfg"], os.path.basename(d) + "-tv%d" % attempt)
        if any(not r["ok"] for r in res):
            return True
    return False


def check_C20(rep):
    rep.rule = ("TLC enumerates every healthy labelled reference forest over N slabs (N=4: 125, N=5: 1296) with two owner patterns and every "
                "single corruption of the four kinds (referenced slab deleted - as a pending deletion, a committed deletion, or missing from the "
                "ledger -, one root more than expected, a second reference to a slab, a foreign owner), proving in the model that each corrupted "
                "graph is unhealthy; every case is built in a real storage (root arrays whose elements are slab references), fully loaded, and "
                "CheckStorageHealth / GetAllChildReferences must give the verdict of the Healthy predicate and the true roots / references; the same "
                "corruptions are applied to the committed storages of simulated nested-container walks")
    quick = rep.tier == "quick"
    n = 4 if quick else 5
    sel = None if quick else (lambda c, key: c["kind"] == "none" or frac(key + rep.seed, 1, 4))
    files, cnt, total = model_histories(rep, "Health.tla", "Health.cfg", {"N": n, "EmitCases": "TRUE"},
                                        "Health N=%d: all healthy forests x all single corruptions" % n, {"cfg": {}}, sel, "c20-mc")
    rep.exhaustive = quick
    rep.distinct.update(range(cnt))

    def sig(rec, trace, why, hist):
        return "health:%s:%s:%s" % (rec["kind"], rec["how"], why)
    hist_stage(rep, "c20-cases", ["health-run"], "health", "HealthTrace.tla", "HealthTrace_C20.cfg", files, "full",
               "CheckStorageHealth / GetAllChildReferences disagrees with the Healthy predicate", sigfn=sig)
    rep.stages["c20-cases"]["selected_of_cases"] = [cnt, total]
    wf, wn = sim_histories(rep, "Nested.tla", "Nested.cfg", {"MaxC": 8, "MaxE": 8, "Sizes": "{12, 60, 110, 130}", "Persist": "FALSE"},
                           "Nested walks (storages to corrupt)", {"cfg": {"T": 256}}, "c20-walks", 40 if quick else 600, 100 if quick else 200)
    base = len(rep.distinct)
    rep.distinct.update(range(base, base + wn))
    hist_stage(rep, "c20-walk-storages", ["health-walks"], "health", "HealthTrace.tla", "HealthTrace_C20.cfg", wf, "full",
               "CheckStorageHealth disagrees with the Healthy predicate on a storage produced by a valid history", sigfn=sig, tkey="h")


def deep_map_stage(rep, prefix, cfgname, what):
    """Maps with three slab levels (>= ~150 keys at slab 256): grow silently, then record a tail with persistence events."""
    quick = rep.tier == "quick"
    depth, nkeys, num = (240, 280, 3) if quick else (600, 700, 40)
    nm = prefix + "-deepmap"
    # large values: two or three entries per slab, so that three slab levels are reached with ~120 keys
    wf, wn = sim_histories(rep, "MC_MapWalk.tla", "MC_MapWalk.cfg",
                           {"Keys": keyset(nkeys), "DigMode": '"spread"', "KSz": 5, "VSizes": "{60, 101}", "Persist": "TRUE", "PersistEvery": 4, "AllowPop": "FALSE",
                            "GrowUntil": depth - 60, "ShrinkFrom": 1000000},
                           "MC_MapWalk %d keys, growth then churn with persistence events (3 slab levels)" % nkeys,
                           {"cfg": {"T": 256, "limit": 255}}, nm, num, depth, workers=4)
    base = len(rep.distinct)
    rep.distinct.update(range(base, base + wn))
    hist_stage(rep, nm, ["map-run", "-tail", "70"], "map", "MapTrace.tla", "MapTrace_%s.cfg" % cfgname, wf, "tail", what)


def deep_map_probe_stage(rep, prefix, cfgname, what, probes):
    """Probes (iterator flavours, mutable iteration, partial loads, bulk build) at the end of growth walks that reach three slab levels."""
    quick = rep.tier == "quick"
    depth, nkeys, num = (150, 220, 3) if quick else (400, 500, 40)
    nm = prefix + "-deepmap-probes"
    wf, wn = sim_histories(rep, "MC_MapWalk.tla", "MC_MapWalk.cfg",
                           {"Keys": keyset(nkeys), "DigMode": '"spread"', "KSz": 5, "VSizes": "{60, 101}", "AllowPop": "FALSE",
                            "GrowUntil": depth, "ShrinkFrom": 1000000},
                           "MC_MapWalk %d keys, growth walks of %d inserts (3 slab levels), probes at the end" % (nkeys, depth),
                           {"cfg": {"T": 256, "limit": 255}}, nm, num, depth, workers=4)
    base = len(rep.distinct)
    rep.distinct.update(range(base, base + wn))
    hist_stage(rep, nm, probe_cmd("map-run", probes, rep) + ["-tail", "2"], "map", "MapTrace.tla", "MapTrace_%s.cfg" % cfgname, wf, "tail", what)


def deep_array_probe_stage(rep, prefix, cfgname, what, probes):
    """Probes (iterators, ranges, mutable iteration, bulk build) at the end of growth walks that reach three slab levels (large
    elements: two or three per slab, so that the root index slab splits with ~65 elements)."""
    quick = rep.tier == "quick"
    depth, num = (130, 3) if quick else (260, 40)
    nm = prefix + "-deeparray-probes"
    wf, wn = sim_histories(rep, "MC_Array.tla", "MC_Array_sim.cfg",
                           {"T": 256, "Sizes": "{90, 117}", "WithReads": "FALSE", "AllowPop": "FALSE", "MaxElems": 100000,
                            "GrowUntil": depth, "ShrinkFrom": 1000000},
                           "MC_Array T=256 growth walks of %d operations over sizes {90,117} (3 slab levels), probes at the end" % depth,
                           {"cfg": {"T": 256}}, nm, num, depth, workers=4)
    base = len(rep.distinct)
    rep.distinct.update(range(base, base + wn))
    hist_stage(rep, nm, probe_cmd("array-run", probes, rep) + ["-tail", "2"], "array", "ArrayTrace.tla", "ArrayTrace_%s.cfg" % cfgname, wf, "tail", what)


def deep_map_shrink_stage(rep, prefix, cfgname, what):
    """Three-level maps (large values) grown and then SHRUNK key by key, every removal recorded: inner index slabs repeatedly reach
    their minimum and borrow from / merge with siblings that are themselves at or near the minimum."""
    quick = rep.tier == "quick"
    grow, shrink, num = (170, 110, 3) if quick else (260, 200, 40)
    depth = grow + shrink
    nm = prefix + "-deepmap-shrink"
    wf, wn = sim_histories(rep, "MC_MapWalk.tla", "MC_MapWalk.cfg",
                           {"Keys": keyset(grow + 40), "DigMode": '"spread"', "KSz": 5, "VSizes": "{60, 101}", "AllowPop": "FALSE",
                            "GrowUntil": grow, "ShrinkFrom": grow},
                           "MC_MapWalk growth to three slab levels (%d steps) then removals only (%d steps, all recorded)" % (grow, shrink),
                           {"cfg": {"T": 256, "limit": 255}}, nm, num, depth, workers=4)
    base = len(rep.distinct)
    rep.distinct.update(range(base, base + wn))
    hist_stage(rep, nm, ["map-run", "-tail", str(shrink)], "map", "MapTrace.tla", "MapTrace_%s.cfg" % cfgname, wf, "tail", what)


def deep_map_minfan_stage(rep, tcfg, what, prefix):
    """Boundary search in three-level maps: grow, shrink, then - at the states in which two adjacent inner index slabs both hold the
    minimum number of children - replay every overwrite and every removal (one-step closure)."""
    quick = rep.tier == "quick"
    for (grow, shrink, fan, num) in ([(170, 85, 110, 2)] if quick else [(170, 85, 130, 10), (230, 110, 160, 8)]):
        depth = grow + shrink + fan
        boundary_fan_stage(rep, "%s-mapminfan%d" % (prefix, depth), ["map-run"], "map", "MC_MapWalk.tla", "MC_MapWalk.cfg",
                           {"Keys": keyset(grow + 40), "DigMode": '"spread"', "KSz": 5, "VSizes": "{60, 101}", "AllowPop": "FALSE",
                            "GrowUntil": grow, "ShrinkFrom": grow, "FanShrink": "TRUE"},
                           "MC_MapWalk growth to three slab levels, removals only for %d steps, then a shrinking fan window" % shrink,
                           {"cfg": {"T": 256, "limit": 255}},
                           "MapTrace.tla", tcfg, what, num, depth, fan, want=("innermin2",), maxcuts=8, nhdr=1)


def thinning_family(rep, prefix, what_map, what_array):
    """Scripted family: containers grown to three slab levels (large elements) and then thinned EVENLY - every second element in
    key / index order, again and again - so that all data slabs shrink at the same rate and all inner index slabs reach their
    minimum together (adjacent siblings with nothing to spare: borrow-versus-merge decisions at the exact boundary).  Every
    removal is recorded and judged."""
    def spread(k):
        return [(k * 37) % 1009, (k * 11) % 7, k % 3, k % 2]
    mh = []
    for (N, pat) in ((150, (60, 101)), (170, (101, 60, 60)), (130, (101,)), (160, (60,)), (190, (101, 12))):
        keys = list(range(1, N + 1))
        h = [["dig"] + [spread(k) for k in keys]]
        for i, k in enumerate(keys):
            sz = pat[i % len(pat)]
            h.append(["mset", k, 5, (i + 1) * 1000 + sz, sz])
        left = sorted(keys, key=lambda k: spread(k)[0])
        rem = []
        while len(left) > 6:
            rem += left[0::2]
            left = left[1::2]
        h += [["mrem", k, 5] for k in rem]
        mh.append((h, len(rem)))
    f = os.path.join(vlib.scratch(), prefix + "-mthin.ndjson")
    with open(f, "w") as fh:
        fh.write(json.dumps({"cfg": {"T": 256, "limit": 255}}) + "\n")
        for h, _ in mh:
            fh.write(json.dumps(h) + "\n")
    base = len(rep.distinct)
    rep.distinct.update(range(base, base + len(mh)))
    hist_stage(rep, prefix + "-map-thinning", ["map-run", "-tail", str(max(n for _, n in mh))], "map", "MapTrace.tla",
               "MapTrace_C05.cfg", [f], "tail", what_map)
    ah = []
    for (N, pat) in ((90, (90, 117)), (110, (117, 60, 117)), (80, (117,)), (130, (60, 90))):
        h = []
        for i in range(N):
            sz = pat[i % len(pat)]
            h.append(["ins", i, i + 1, sz])
        n, nrem = N, 0
        while n > 6:
            for i in range(n - 1, -1, -2):      # from the end: earlier indexes do not shift
                h.append(["rem", i])
                nrem += 1
            n = n // 2
        ah.append((h, nrem))
    f = os.path.join(vlib.scratch(), prefix + "-athin.ndjson")
    with open(f, "w") as fh:
        fh.write(json.dumps({"cfg": {"T": 256}}) + "\n")
        for h, _ in ah:
            fh.write(json.dumps(h) + "\n")
    base = len(rep.distinct)
    rep.distinct.update(range(base, base + len(ah)))
    hist_stage(rep, prefix + "-array-thinning", ["array-run", "-tail", str(max(n for _, n in ah))], "array", "ArrayTrace.tla",
               "ArrayTrace_C05.cfg", [f], "tail", what_array)


def check_C03(rep):
    rep.rule = ("(a) storage level: SlabStorage closure, every explored history replayed, commit / recreate / retrieve events strict, "
                "BaseOnlyInCommit + TempNeverWritten + CommitOK + DropReverts; (b) container level: TLC-explored array histories with "
                "every placement of commit / drop cache / crash between operations (all shapes up to 3-4 elements) and simulated "
                "array and map walks with such events: after every successful commit a brand-new storage over a copy of the ledger "
                "must reconstruct exactly the model content from the registers alone; the ledger call counter must not move outside "
                "commits; no call may carry the zero address; a crash must restore the last committed content; after EVERY operation every "
                "slab held in the read cache and not pending in the write set must encode to exactly its register (CacheCoherent: an in-place "
                "change that never reached the write set would be skipped by the next commit); (c) the same for nested-container histories "
                "(every heap shape of <= 2 containers x every placement of commit / cache drop / crash, and simulated walks)")
    quick = rep.tier == "quick"

    def sel(ops, key):
        return frac(key + rep.seed, 1, 12 if quick else 2)
    files, n, total = storage_histories(rep, 3, sel, "c03-mc3")
    rep.distinct.update(range(n))
    storage_stage(rep, "c03-storage-edges", "SlabStorageTrace_C03.cfg", files, "edge")
    persist_stages(rep, "c03", "C03", "ledger does not hold the last committed state")
    deep_map_stage(rep, "c03", "C03", "ledger does not hold the last committed state (3-level map)")
    # every explored transition of the bounded array / map models executed on committed (clean, or freshly decoded) slabs
    what = "an operation on committed slabs is not completely written by the next commit"
    files, n, total = model_histories(rep, "MC_Array.tla", "MC_Array.cfg", {"EmitEdges": "TRUE", "MaxElems": 5 if quick else 6, "T": 256, "WithReads": "FALSE"},
                                      "MC_Array T=256 MaxElems=%d, each transition wrapped as commit(+drop/reopen), op, commit" % (5 if quick else 6),
                                      {"cfg": {"T": 256}}, lambda ops, key: frac(key + rep.seed, 1, 4 if quick else 1), "c03-awrap")
    base = len(rep.distinct)
    rep.distinct.update(range(base, base + n))
    hist_stage(rep, "c03-array-edges-wrapped", ["array-run", "-tail", "2"], "array", "ArrayTrace.tla", "ArrayTrace_C03.cfg", wrap_persist(files), "tail", what)
    nk, mk, den = (6, 5, 32) if quick else (7, 6, 8)
    files, n, total = model_histories(rep, "MC_MapSlab.tla", "MC_MapSlab.cfg", {"EmitEdges": "TRUE", "Keys": keyset(nk), "MaxKeys": mk},
                                      "MC_MapSlab T=256 %d keys (<= %d present), each transition wrapped as commit(+drop/reopen), op, commit" % (nk, mk),
                                      {"cfg": {"T": 256, "limit": 255}}, lambda ops, key: frac(key + rep.seed, 1, den), "c03-mwrap", timeout=7200)
    base = len(rep.distinct)
    rep.distinct.update(range(base, base + n))
    hist_stage(rep, "c03-mapslab-edges-wrapped", ["map-run", "-tail", "2"], "map", "MapTrace.tla", "MapTrace_C03.cfg", wrap_persist(files, 1), "tail", what)
    map_full_stage(rep, "MapTrace_C03.cfg", what, "c03", wrap=True)
    array_fan_stage(rep, "ArrayTrace_C03.cfg", what, "c03", wrap=True)
    map_fan_stage(rep, "MapTrace_C03.cfg", what, "c03", wrap=True)
    # nested containers: every heap shape of <= 2 containers with every placement of commit / cache drop / crash, and walks
    what = "ledger does not hold the last committed state (nested containers)"
    nested_bfs_stage(rep, "c03", "NestedTrace_C03.cfg", what, only=("p",))
    nested_stage(rep, "c03", "NestedTrace_C03.cfg", what, 256, "{12, 60, 110}", 60 if quick else 800, 100 if quick else 200, 6, 6)
    nested_stage(rep, "c03-collide", "NestedTrace_C03.cfg", what, 256, "{12, 40}", 40 if quick else 600, 120 if quick else 250, 8, 6, nkeys=6, kinds='{"M", "A"}', mask=1)
    compact_family(rep, "c03", "NestedTrace_C03.cfg", what)


def check_C07(rep):
    rep.rule = ("at every commit point of TLC-explored array histories and simulated array/map walks the registers are decoded by a "
                "brand-new storage and projected; the cold forest (elements in order, sizes, counts, type info, seeds, sibling links, "
                "header copies, inlined children) must EQUAL the forest of the in-memory slabs that produced the registers, and satisfy TreeInv")
    persist_stages(rep, "c07", "C07", "decoded registers differ from the slabs that produced them")
    nested_stages(rep, "c07", "NestedTrace_C07.cfg", "register does not round-trip / header flags do not describe the slab")
    many_types_family(rep, "c07", "NestedTrace_C07.cfg", "register does not round-trip (more than 24 shared type infos in one slab)")


def check_C06(rep):
    rep.rule = ("size bookkeeping (reported size = prefix(kind, root?, inlined?) + element sizes, header copies, counts) is recomputed by "
                "TreeInv on the forest projected after EVERY operation of TLC-explored array histories, map histories under all digest "
                "assignments and simulated walks (SizesAgree); at every commit the harness measures, on each raw register, the length of the "
                "encoding without the root's extra-data section and the shared inlined-extra-data section, whether the sibling link is present, "
                "the size reported by the slab decoded from the register and by the in-memory slab; EncodedLenRelation requires reported = body "
                "(+16 for a non-root data slab without sibling link), '<=' when the shared section holds compact-map data, decoded size = in-memory "
                "size = the size in the projected forest; nested walks cover inlined arrays / maps / compact maps, wrapped values, collision groups, references")
    quick = rep.tier == "quick"
    persist_stages(rep, "c06", "C06", "reported slab size differs from the bytes written")
    map_collide_stage(rep, "MapTrace_C06.cfg", "map size bookkeeping is wrong", "c06", 255, 3, (1, 60) if quick else (1, 4))
    nested_stages(rep, "c06", "NestedTrace_C06.cfg", "reported slab size differs from the bytes written")
    big_slab_family(rep, "c06", "NestedTrace_C06.cfg", "reported slab size differs from the bytes written (hundreds of inlined children in one slab)")
    # bulk-built containers: every size stream over edge sizes, then bulk build; the result's bookkeeping must agree too
    maxel = 6 if quick else 7
    files, n, total = model_histories(rep, "MC_Array.tla", "MC_Array.cfg",
                                      {"EmitEdges": "TRUE", "MaxElems": maxel, "T": 256, "Sizes": "{8, 20, 60, 70, 117}", "AppendOnly": "TRUE"},
                                      "MC_Array append-only: all size streams up to %d elements (bulk-built copies)" % maxel,
                                      {"cfg": {"T": 256}}, (lambda ops, key: frac(key + rep.seed, 1, 3)) if quick else None, "c06-streams")
    base = len(rep.distinct)
    rep.distinct.update(range(base, base + n))
    hist_stage(rep, "c06-array-streams", probe_cmd("array-run", "batch,copy", rep), "array", "ArrayTrace.tla", "ArrayTrace_C06.cfg", files, "edge",
               "bulk-built / copied container reports a size that disagrees with its content")
    bytes_stage(rep, "BytesTrace_C06.cfg", "c06-bytes")
    rep.level = "model_checking"


def check_C08(rep):
    rep.rule = ("multi-run acceptor: each TLC-simulated history (arrays and maps, with reads and rejected requests) is executed under "
                "the schedules {commit only at the end (reference), commit after every operation, random commit/drop-cache/reopen, commit+reopen, "
                "commit+drop-cache}; all runs must give identical per-operation results, identical final content and byte-identical final registers")
    quick = rep.tier == "quick"
    variants = [V_REF,
                {"name": "commit-every-op", "sched": "every", "mode": "det", "workers": 2, "faults": 0},
                {"name": "random-commit-drop-reopen", "sched": "random", "mode": "det", "workers": 3, "faults": 0},
                {"name": "commit-reopen", "sched": "reopen", "mode": "det", "workers": 1, "faults": 0},
                {"name": "commit-dropcache", "sched": "drop", "mode": "nondet", "workers": 4, "faults": 0},
                {"name": "dropcache-without-commit", "sched": "droponly", "mode": "det", "workers": 2, "faults": 0},
                {"name": "independent-commits-and-evictions", "sched": "mixed", "mode": "det", "workers": 2, "faults": 0},
                {"name": "independent-commits-and-evictions-relaxed", "sched": "mixed", "mode": "nondet", "workers": 3, "faults": 0}]
    for kind in ("array", "map", "nested"):
        files, n = walk_files(rep, "c08", kind, quick)
        base = len(rep.distinct)
        rep.distinct.update(range(base, base + n))
        multirun_stage(rep, "c08-multirun-" + kind, kind, files, variants, "MultiRunTrace_C08.cfg", "cache is not transparent")
    # nested containers with evictions INSIDE the history: the walks carry the model's own commits and cache drops (the model retires
    # the child handles a cache drop invalidates); the same walk is run as it is, without the drops, without any intermediate commit,
    # and with every drop turned into an abandon-and-reopen
    wf, wn = sim_histories(rep, "Nested.tla", "Nested.cfg", {"MaxC": 8, "MaxE": 8, "Sizes": "{12, 60, 110}", "Persist": "TRUE", "Crashes": "FALSE",
                                                             "Kinds": '{"A", "M"}', "Types": "{43, 44, 45}"},
                           "Nested walks with the model's commits and cache drops (multi-run histories)", {"cfg": {"T": 256}}, "c08-mrh-np",
                           48 if quick else 400, 100 if quick else 200)
    base = len(rep.distinct)
    rep.distinct.update(range(base, base + wn))
    nv = [dict(V_REF, name="as-generated", keeppersist=True),
          dict(V_REF, name="without-cache-drops", keeppersist=True, strip="drops", workers=2),
          dict(V_REF, name="single-commit-at-end", keeppersist=True, strip="all"),
          dict(V_REF, name="drops-become-reopenings", keeppersist=True, strip="reopen", mode="nondet", workers=3)]
    multirun_stage(rep, "c08-multirun-nested-evictions", "nested", wf, nv, "MultiRunTrace_C08.cfg", "cache is not transparent (nested containers)")
    rep.exhaustive = False


def check_C04(rep):
    rep.rule = ("(a) SlabStorage closure: DetOrder invariant, commit events replayed and validated (call order ascending (owner, index)); "
                "(b) DetOrder on every commit of simulated array/map walks with persistence events; (c) multi-run acceptor: each history "
                "executed with 1/2/7/64 workers, both commit kinds, random commit/reopen points, in fresh processes with GOMAXPROCS 1 and 16: "
                "final registers must be byte-identical under identical identifiers")
    quick = rep.tier == "quick"

    def sel(ops, key):
        return any(o["op"] == "commit" for o in ops) and frac(key + rep.seed, 1, 16 if quick else 2)
    files, n, total = storage_histories(rep, 3, sel, "c04-mc3")
    rep.distinct.update(range(n))
    storage_stage(rep, "c04-storage", "SlabStorageTrace_C04.cfg", files, "full")
    # slab indexes start at 250: commits touch identifiers on both sides of the one-byte boundary (255 / 256)
    persist_stages(rep, "c04", "C04", "deterministic commit issues calls out of (owner, index) order", arrays=True, maps=True, index0=250)
    variants = [V_REF,
                {"name": "2-workers", "sched": "end", "mode": "det", "workers": 2, "faults": 0},
                {"name": "7-workers-random-schedule", "sched": "end", "mode": "det", "workers": 7, "faults": 0},
                {"name": "64-workers", "sched": "end", "mode": "det", "workers": 64, "faults": 0},
                {"name": "order-relaxed-4-workers", "sched": "end", "mode": "nondet", "workers": 4, "faults": 0}]
    envs = [{"GOMAXPROCS": "1"}, {"GOMAXPROCS": "16"}] if quick else [{"GOMAXPROCS": "1"}, {"GOMAXPROCS": "2"}, {"GOMAXPROCS": "16"}, {"GOMAXPROCS": "5"}]
    for kind in ("array", "map", "nested"):
        files, n = walk_files(rep, "c04", kind, quick)
        base = len(rep.distinct)
        rep.distinct.update(range(base, base + n))
        multirun_stage(rep, "c04-multirun-" + kind, kind, files, variants, "MultiRunTrace_C04.cfg",
                       "ledger state is not a function of the history", envs=envs)
    rep.exhaustive = False


def exterr_replay(payload):
    exe = vlib.build_harness()
    d = os.path.join(vlib.scratch(), "replay-%d" % random.randrange(1 << 30))
    os.makedirs(d)
    out = os.path.join(d, "t.ndjson")
    p = subprocess.run([exe, "exterr-run", "-out", out, "-seed", str(payload["seed"]), "-tier", payload["tier"]], capture_output=True, text=True)
    if p.returncode != 0:
        raise Inconclusive("exterr-run failed: " + p.stderr[-2000:])
    res = vlib.validate_traces([out], payload["trace_module"], payload["trace_cfg"], os.path.basename(d) + "-tv")
    for r in res:
        if "error" in r:
            raise Inconclusive(r["error"])
    return any(not r["ok"] for r in res)


def replay(rep, path):
    payload = json.load(open(path))
    eng = payload.get("engine")
    fn = {"hist": hist_replay, "storage-random": storage_random_replay, "multirun": multirun_replay, "bytes": bytes_replay, "crash": crash_replay, "pools": pools_replay, "exterr": exterr_replay}.get(eng)
    if fn is None:
        raise Inconclusive("unknown engine in replay file: %s" % eng)
    if fn(payload):
        if vlib.known_match(payload["property"], payload.get("signature")):
            rep.known.append(payload.get("signature"))
        else:
            rep.violations.append({"signature": payload.get("signature"), "what": "replayed: still rejected", "replay": path})
    else:
        log("replay: accepted (no violation)")


CHECKS = {
    "C01": check_C01,
    "C02": check_C02,
    "C03": check_C03,
    "C04": check_C04,
    "C05": check_C05,
    "C06": check_C06,
    "C07": check_C07,
    "C09": check_C09,
    "C10": check_C10,
    "C11": check_C11,
    "C08": check_C08,
    "C12": check_C12,
    "C13": check_C13,
    "C17": check_C17,
    "C18": check_C18,
    "C14": check_C14,
    "C15": check_C15,
    "C16": check_C16,
    "C20": check_C20,
}
