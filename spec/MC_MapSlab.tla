----------------------------- MODULE MC_MapSlab -----------------------------
(* Bounded exploration of the map slab-tree algorithm (layer C, MapSlabTree) against the dictionary (layer A,     *)
(* MapDict) for keys with distinct first-level digests: every insert / overwrite (with every value size) /        *)
(* removal (present and absent) / lookup in every reachable shape.  TLC checks that the tree is well formed,      *)
(* holds exactly the dictionary's entries in digest order, that lookup routing finds every key and that the       *)
(* binary search agrees with the definition; every explored transition prints its history for replay.             *)
EXTENDS MapSlabTree, MapDict, Json

CONSTANTS Keys, KSz, VSizes, MaxKeys, EmitEdges, EmitOneIn, WithReads,
          EmitExact,   \* print only the transitions whose successor tree has a slab sitting EXACTLY on a threshold (see OnEdge)
          AppendOnly   \* explore only growth in key order: every value-size stream (sources of the bulk builder, C17)

VARIABLES tree, dict, nextId, hist, res
mvars == <<tree, dict, nextId, hist, res>>

Dig(k) == <<k * 10, k % 3, k % 2, 0>>
KeysSeq == [k \in 1..Cardinality(Keys) |-> Dig(k)]
StoredV(v) == IF v > MaxInlineMapValue(T, KSz) THEN SlabIDStorableSize ELSE v
Elem(k, vsz) == [d |-> Dig(k)[1], key |-> k, sz |-> SingleElementPrefix + KSz + StoredV(vsz)]
\* EmitOneIn > 1: print only a random sample of the explored transitions (the value of the conjunct is TRUE either way)
\* a slab exactly on a threshold (see MC_Array): the states where '>=' against '>' in a lend / borrow / merge / split decision matters
RECURSIVE OnEdge(_, _)
OnEdge(n, isRoot) == \/ ~isRoot /\ Size(n) \in {MinT, MaxT}
                     \/ isRoot /\ RootSize(n) = MaxT
                     \/ n.k = "m" /\ \E i \in 1..Len(n.c) : OnEdge(n.c[i], FALSE)
Emit(h) == IF EmitEdges /\ (~EmitExact \/ OnEdge(tree', TRUE)) /\ (EmitOneIn <= 1 \/ RandomElement(1..EmitOneIn) = 1) THEN PrintT(ToJson(h)) ELSE TRUE
Step(o) == hist' = Append(hist, o) /\ Emit(hist')

Init == tree = EmptyTree /\ dict = <<>> /\ nextId = 1 /\ hist = << <<"dig">> \o KeysSeq >> /\ res = MOk(0, FALSE)

SetK(k, vsz) ==
  /\ (HasKey(dict, k) \/ Len(dict) < MaxKeys)
  /\ LET vid == nextId * 1000 + vsz  a == MSet(dict, k, Dig(k), vid, 255) IN
     /\ dict' = a.s /\ res' = a.r /\ tree' = TSet(tree, Elem(k, vsz)) /\ nextId' = nextId + 1
     /\ Step(<<"mset", k, KSz, vid, vsz>>)
RemoveK(k) ==
  /\ LET a == MRem(dict, k) IN
     /\ dict' = a.s /\ res' = a.r /\ tree' = TRemove(tree, Dig(k)[1]) /\ UNCHANGED nextId
     /\ Step(<<"mrem", k, KSz>>)
GetK(k) == /\ res' = MGet(dict, k).r /\ UNCHANGED <<tree, dict, nextId>> /\ Step(<<"mget", k, KSz>>)

Next == IF AppendOnly THEN (\E v \in VSizes : Len(dict) + 1 \in Keys /\ SetK(Len(dict) + 1, v)) ELSE
        \/ \E k \in Keys, v \in VSizes : SetK(k, v)
        \/ \E k \in (IF WithReads THEN Keys ELSE {j \in Keys : HasKey(dict, j)}) : RemoveK(k)
        \/ WithReads /\ \E k \in Keys : GetK(k)
Spec == Init /\ [][Next]_mvars

WellFormed == WFNode(tree, TRUE) /\ SameDepth(tree) /\ SortedUnique(tree)
Refines == LET f == Flatten(tree) IN
           /\ [i \in 1..Len(f) |-> f[i].key] = CanonKeys(dict)
           /\ \A i \in 1..Len(f) : f[i].sz = SingleElementPrefix + KSz + StoredV(ValOf(dict, f[i].key) % 1000)
LookupsAgree == \A k \in Keys : NHas(tree, Dig(k)[1]) = HasKey(dict, k)
RECURSIVE RoutingOK(_)
RoutingOK(n) == n.k = "d" \/ (/\ \A k \in Keys : RoutingAgrees(n.c, Dig(k)[1])
                              /\ \A i \in 1..Len(n.c) : RoutingOK(n.c[i]))
Routing == RoutingOK(tree)
View == Shape(tree)
=============================================================================
