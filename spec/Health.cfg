SPECIFICATION Spec
CONSTANTS
  N = 4
  EmitCases = FALSE
INVARIANTS InitialHealthy CorruptedUnhealthy IntactHealthy
CHECK_DEADLOCK FALSE
