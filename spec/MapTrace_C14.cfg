SPECIFICATION Spec
CONSTANTS
  StrictA = FALSE
  CheckCat = FALSE
  CheckOrder = FALSE
INVARIANTS FailedCommitIsExternal Durable
POSTCONDITION TraceAccepted
CHECK_DEADLOCK FALSE
