SPECIFICATION Spec
INVARIANT Lemmas
CHECK_DEADLOCK FALSE
