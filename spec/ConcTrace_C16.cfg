SPECIFICATION Spec
INVARIANTS Returns SameError DetSameState RelaxedSameOnSuccess Converges
POSTCONDITION TraceAccepted
CHECK_DEADLOCK FALSE
