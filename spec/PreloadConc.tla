---------------------------- MODULE PreloadConc ----------------------------
(***************************************************************************)
(* C16: the goroutine skeleton of PersistentSlabStorage.BatchPreload        *)
(* (storage.go, parallel path, >= 11 identifiers).  It differs from the     *)
(* commits (CommitConc): the W decoders are started BEFORE the jobs are     *)
(* sent; the main goroutine reads each register from the ledger and sends   *)
(* it as a job; the job queue is closed by a DEFERRED close - Go defers are *)
(* function-scoped, so although the defer is written inside a block the     *)
(* queue stays open until the function returns; a second, earlier defer     *)
(* waits for the workers and closes the result queue.  Defers run in LIFO   *)
(* order: close(jobs) first, then wg.Wait(); close(results).  With the      *)
(* opposite order the call would never return (the workers range over an    *)
(* open queue): DeferOrder = "fifo" lets TLC exhibit that deadlock (a       *)
(* demonstration that the model is not vacuous; the checked configuration   *)
(* is "lifo", what the code does).                                          *)
(* ReadFail: the ledger read that fails (0 = none; reads NJobs+1..NJobs+Pad  *)
(* are of identifiers that have no register and produce no job); DecErr:    *)
(* the job whose decoding fails (0 = none).  cache = the slabs the main      *)
(* goroutine stored.                                                        *)
(***************************************************************************)
EXTENDS Integers, Sequences, FiniteSets, Json, TLC

CONSTANTS W, NJobs, Pad, ReadFail, DecErr, DeferOrder, EmitSchedules

PreCached == {-1, -2}      \* slabs in the read cache before the call (none of the jobs): preloading only adds

Workers == 1..W

(* --fair algorithm preload
variables jobs = <<>>,          \* buffered channel, capacity NJobs (never blocks the sender)
          jobsClosed = FALSE,
          results = <<>>,       \* buffered channel, capacity NJobs
          resultsClosed = FALSE,
          done = FALSE,
          running = W,
          received = <<>>,
          cache = PreCached,
          err = "none",
          returned = FALSE,
          sendOnClosed = FALSE, blockedSend = FALSE, doubleClose = FALSE;

process main = 0
variables i = 1, sent = 0, n = 0, r = 0;
begin
Send:
  while i <= NJobs + Pad /\ err = "none" do
    if i = ReadFail then
      err := "external"; done := TRUE;        \* close(done); return
    elsif i <= NJobs then
      jobs := Append(jobs, i); sent := sent + 1;
    end if;
    i := i + 1;
  end while;
Collect:
  while n < sent /\ err = "none" do
    await Len(results) > 0;
    r := Head(results); results := Tail(results);
    received := Append(received, r);
    n := n + 1;
    if r = DecErr then
      err := "decoding"; done := TRUE;        \* close(done); return
    else
      cache := cache \cup {r};
    end if;
  end while;
Defer1:      \* LIFO: the defer registered last runs first
  if DeferOrder = "lifo" then
    if jobsClosed then doubleClose := TRUE; end if;
    jobsClosed := TRUE;
  else
    await running = 0;
    resultsClosed := TRUE;
  end if;
Defer2:
  if DeferOrder = "lifo" then
    await running = 0;
    resultsClosed := TRUE;
  else
    jobsClosed := TRUE;
  end if;
Return:
  returned := TRUE;
end process;

process worker \in Workers
variables job = 0;
begin
Take:        \* for slabData := range jobs
  await Len(jobs) > 0 \/ jobsClosed;
  if Len(jobs) = 0 then
    goto Exit;
  else
    job := Head(jobs); jobs := Tail(jobs);
  end if;
CheckDone:
  if done then
    goto Exit;
  end if;
Decode:      \* DecodeSlab: touches only the job's own bytes
  skip;
SendResult:
  if resultsClosed then
    sendOnClosed := TRUE;
  end if;
  if Len(results) >= NJobs then blockedSend := TRUE; end if;
  await Len(results) < NJobs;
  results := Append(results, job);
  goto Take;
Exit:
  running := running - 1;
end process;
end algorithm; *)
\* BEGIN TRANSLATION
VARIABLES pc, jobs, jobsClosed, results, resultsClosed, done, running, 
          received, cache, err, returned, sendOnClosed, blockedSend, 
          doubleClose, i, sent, n, r, job

vars == << pc, jobs, jobsClosed, results, resultsClosed, done, running, 
           received, cache, err, returned, sendOnClosed, blockedSend, 
           doubleClose, i, sent, n, r, job >>

ProcSet == {0} \cup (Workers)

Init == (* Global variables *)
        /\ jobs = <<>>
        /\ jobsClosed = FALSE
        /\ results = <<>>
        /\ resultsClosed = FALSE
        /\ done = FALSE
        /\ running = W
        /\ received = <<>>
        /\ cache = PreCached
        /\ err = "none"
        /\ returned = FALSE
        /\ sendOnClosed = FALSE
        /\ blockedSend = FALSE
        /\ doubleClose = FALSE
        (* Process main *)
        /\ i = 1
        /\ sent = 0
        /\ n = 0
        /\ r = 0
        (* Process worker *)
        /\ job = [self \in Workers |-> 0]
        /\ pc = [self \in ProcSet |-> CASE self = 0 -> "Send"
                                        [] self \in Workers -> "Take"]

Send == /\ pc[0] = "Send"
        /\ IF i <= NJobs + Pad /\ err = "none"
              THEN /\ IF i = ReadFail
                         THEN /\ err' = "external"
                              /\ done' = TRUE
                              /\ UNCHANGED << jobs, sent >>
                         ELSE /\ IF i <= NJobs
                                    THEN /\ jobs' = Append(jobs, i)
                                         /\ sent' = sent + 1
                                    ELSE /\ TRUE
                                         /\ UNCHANGED << jobs, sent >>
                              /\ UNCHANGED << done, err >>
                   /\ i' = i + 1
                   /\ pc' = [pc EXCEPT ![0] = "Send"]
              ELSE /\ pc' = [pc EXCEPT ![0] = "Collect"]
                   /\ UNCHANGED << jobs, done, err, i, sent >>
        /\ UNCHANGED << jobsClosed, results, resultsClosed, running, received, 
                        cache, returned, sendOnClosed, blockedSend, 
                        doubleClose, n, r, job >>

Collect == /\ pc[0] = "Collect"
           /\ IF n < sent /\ err = "none"
                 THEN /\ Len(results) > 0
                      /\ r' = Head(results)
                      /\ results' = Tail(results)
                      /\ received' = Append(received, r')
                      /\ n' = n + 1
                      /\ IF r' = DecErr
                            THEN /\ err' = "decoding"
                                 /\ done' = TRUE
                                 /\ cache' = cache
                            ELSE /\ cache' = (cache \cup {r'})
                                 /\ UNCHANGED << done, err >>
                      /\ pc' = [pc EXCEPT ![0] = "Collect"]
                 ELSE /\ pc' = [pc EXCEPT ![0] = "Defer1"]
                      /\ UNCHANGED << results, done, received, cache, err, n, 
                                      r >>
           /\ UNCHANGED << jobs, jobsClosed, resultsClosed, running, returned, 
                           sendOnClosed, blockedSend, doubleClose, i, sent, 
                           job >>

Defer1 == /\ pc[0] = "Defer1"
          /\ IF DeferOrder = "lifo"
                THEN /\ IF jobsClosed
                           THEN /\ doubleClose' = TRUE
                           ELSE /\ TRUE
                                /\ UNCHANGED doubleClose
                     /\ jobsClosed' = TRUE
                     /\ UNCHANGED resultsClosed
                ELSE /\ running = 0
                     /\ resultsClosed' = TRUE
                     /\ UNCHANGED << jobsClosed, doubleClose >>
          /\ pc' = [pc EXCEPT ![0] = "Defer2"]
          /\ UNCHANGED << jobs, results, done, running, received, cache, err, 
                          returned, sendOnClosed, blockedSend, i, sent, n, r, 
                          job >>

Defer2 == /\ pc[0] = "Defer2"
          /\ IF DeferOrder = "lifo"
                THEN /\ running = 0
                     /\ resultsClosed' = TRUE
                     /\ UNCHANGED jobsClosed
                ELSE /\ jobsClosed' = TRUE
                     /\ UNCHANGED resultsClosed
          /\ pc' = [pc EXCEPT ![0] = "Return"]
          /\ UNCHANGED << jobs, results, done, running, received, cache, err, 
                          returned, sendOnClosed, blockedSend, doubleClose, i, 
                          sent, n, r, job >>

Return == /\ pc[0] = "Return"
          /\ returned' = TRUE
          /\ pc' = [pc EXCEPT ![0] = "Done"]
          /\ UNCHANGED << jobs, jobsClosed, results, resultsClosed, done, 
                          running, received, cache, err, sendOnClosed, 
                          blockedSend, doubleClose, i, sent, n, r, job >>

main == Send \/ Collect \/ Defer1 \/ Defer2 \/ Return

Take(self) == /\ pc[self] = "Take"
              /\ Len(jobs) > 0 \/ jobsClosed
              /\ IF Len(jobs) = 0
                    THEN /\ pc' = [pc EXCEPT ![self] = "Exit"]
                         /\ UNCHANGED << jobs, job >>
                    ELSE /\ job' = [job EXCEPT ![self] = Head(jobs)]
                         /\ jobs' = Tail(jobs)
                         /\ pc' = [pc EXCEPT ![self] = "CheckDone"]
              /\ UNCHANGED << jobsClosed, results, resultsClosed, done, 
                              running, received, cache, err, returned, 
                              sendOnClosed, blockedSend, doubleClose, i, sent, 
                              n, r >>

CheckDone(self) == /\ pc[self] = "CheckDone"
                   /\ IF done
                         THEN /\ pc' = [pc EXCEPT ![self] = "Exit"]
                         ELSE /\ pc' = [pc EXCEPT ![self] = "Decode"]
                   /\ UNCHANGED << jobs, jobsClosed, results, resultsClosed, 
                                   done, running, received, cache, err, 
                                   returned, sendOnClosed, blockedSend, 
                                   doubleClose, i, sent, n, r, job >>

Decode(self) == /\ pc[self] = "Decode"
                /\ TRUE
                /\ pc' = [pc EXCEPT ![self] = "SendResult"]
                /\ UNCHANGED << jobs, jobsClosed, results, resultsClosed, done, 
                                running, received, cache, err, returned, 
                                sendOnClosed, blockedSend, doubleClose, i, 
                                sent, n, r, job >>

SendResult(self) == /\ pc[self] = "SendResult"
                    /\ IF resultsClosed
                          THEN /\ sendOnClosed' = TRUE
                          ELSE /\ TRUE
                               /\ UNCHANGED sendOnClosed
                    /\ IF Len(results) >= NJobs
                          THEN /\ blockedSend' = TRUE
                          ELSE /\ TRUE
                               /\ UNCHANGED blockedSend
                    /\ Len(results) < NJobs
                    /\ results' = Append(results, job[self])
                    /\ pc' = [pc EXCEPT ![self] = "Take"]
                    /\ UNCHANGED << jobs, jobsClosed, resultsClosed, done, 
                                    running, received, cache, err, returned, 
                                    doubleClose, i, sent, n, r, job >>

Exit(self) == /\ pc[self] = "Exit"
              /\ running' = running - 1
              /\ pc' = [pc EXCEPT ![self] = "Done"]
              /\ UNCHANGED << jobs, jobsClosed, results, resultsClosed, done, 
                              received, cache, err, returned, sendOnClosed, 
                              blockedSend, doubleClose, i, sent, n, r, job >>

worker(self) == Take(self) \/ CheckDone(self) \/ Decode(self)
                   \/ SendResult(self) \/ Exit(self)

(* Allow infinite stuttering to prevent deadlock on termination. *)
Terminating == /\ \A self \in ProcSet: pc[self] = "Done"
               /\ UNCHANGED vars

Next == main
           \/ (\E self \in Workers: worker(self))
           \/ Terminating

Spec == /\ Init /\ [][Next]_vars
        /\ WF_vars(Next)

Termination == <>(\A self \in ProcSet: pc[self] = "Done")

\* END TRANSLATION

\* ---- properties
NoSendOnClosed == ~sendOnClosed /\ ~doubleClose
ResultsNeverBlock == ~blockedSend
Returns == <>returned
AllWorkersExit == <>(running = 0)
\* the outcome is a function of the inputs on success; on failure nothing wrong is ever cached
Outcome == returned =>
  /\ (ReadFail = 0 /\ DecErr = 0) => (err = "none" /\ cache = PreCached \cup (1..NJobs))
  /\ (ReadFail \in 1..(NJobs + Pad)) => (err = "external" /\ cache = PreCached)           \* the failing read precedes every result
  /\ (ReadFail = 0 /\ DecErr \in 1..NJobs) => (err = "decoding" /\ PreCached \subseteq cache /\ cache \subseteq PreCached \cup ((1..NJobs) \ {DecErr}))
EmitAtReturn == (EmitSchedules /\ returned) =>
  PrintT(ToJson([w |-> W, n |-> NJobs, readfail |-> ReadFail, decerr |-> DecErr, order |-> received]))
=============================================================================
