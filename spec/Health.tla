------------------------------- MODULE Health -------------------------------
(* Bounded model for C20: every healthy labelled forest over N slabs and every single      *)
(* corruption of the four kinds (see HealthOps for the healthy predicate).                 *)
EXTENDS HealthOps, Json, TLC

CONSTANTS N, EmitCases
Ids == 1..N

\* ------------------------------------------------------------------ bounded model
VARIABLES g, expected, kind, how, done
hvars == <<g, expected, kind, how, done>>

\* a forest is a parent function (0 = root) without cycles; owners: one owner per tree (roots alternate between two owners)
Acyclic(par) == \A i \in Ids : LET RECURSIVE Up(_, _)
                                  Up(x, k) == IF x = 0 THEN TRUE ELSE IF k = 0 THEN FALSE ELSE Up(par[x], k - 1)
                              IN Up(i, N)
RECURSIVE RootOfP(_, _)
RootOfP(par, i) == IF par[i] = 0 THEN i ELSE RootOfP(par, par[i])
GraphOf(par) == [ex |-> [i \in Ids |-> TRUE],
                 own |-> [i \in Ids |-> 1 + (RootOfP(par, i) % 2)],
                 refs |-> [i \in Ids |-> LET ch == {c \in Ids : par[c] = i}
                                             RECURSIVE S(_)
                                             S(T) == IF T = {} THEN <<>> ELSE LET x == CHOOSE y \in T : \A z \in T : y <= z IN <<x>> \o S(T \ {x})
                                         IN S(ch)]]

Case == [n |-> N, ex |-> g.ex, own |-> g.own, refs |-> g.refs, expected |-> expected, kind |-> kind, how |-> how,
         healthy |-> Healthy(g, expected)]
Emit == IF EmitCases THEN PrintT(ToJson(Case')) ELSE TRUE

Init == /\ \E par \in [Ids -> 0..N] : Acyclic(par) /\ (\A i \in Ids : par[i] # i) /\ g = GraphOf(par)
        /\ expected = Cardinality(Roots(g)) /\ kind = "none" /\ how = "" /\ done = FALSE

NonRoots == {x \in Ids : Referrers(g, x) # {}}
Intact == /\ ~done /\ done' = TRUE /\ kind' = "none" /\ how' = "" /\ UNCHANGED <<g, expected>> /\ Emit
DeleteReferenced(x, h) ==
  /\ ~done /\ x \in NonRoots /\ done' = TRUE /\ kind' = "delete" /\ how' = h
  /\ g' = [g EXCEPT !.ex[x] = FALSE] /\ UNCHANGED expected /\ Emit
AddUnreferenced ==      \* an additional root beyond the expected number: modelled by expecting one root fewer than there are
  /\ ~done /\ done' = TRUE /\ kind' = "extra" /\ how' = "" /\ expected' = expected - 1 /\ UNCHANGED g /\ Emit
DoubleReference(x, p) ==
  /\ ~done /\ x \in NonRoots /\ p \in Ids /\ p # x /\ done' = TRUE /\ kind' = "double" /\ how' = ""
  /\ g' = [g EXCEPT !.refs[p] = Append(@, x)] /\ UNCHANGED expected /\ Emit
ForeignOwner(x) ==
  /\ ~done /\ x \in NonRoots /\ done' = TRUE /\ kind' = "owner" /\ how' = ""
  /\ g' = [g EXCEPT !.own[x] = 3] /\ UNCHANGED expected /\ Emit

Next == \/ Intact
        \/ \E x \in Ids, h \in {"pending", "committed", "ledger"} : DeleteReferenced(x, h)
        \/ AddUnreferenced
        \/ \E x \in Ids, p \in Ids : DoubleReference(x, p)
        \/ \E x \in Ids : ForeignOwner(x)
Spec == Init /\ [][Next]_hvars

\* sanity lemmas of the model: every generated forest is healthy, every corrupted one is not
InitialHealthy == ~done => Healthy(g, expected)
CorruptedUnhealthy == (done /\ kind # "none") => ~Healthy(g, expected)
IntactHealthy == (done /\ kind = "none") => Healthy(g, expected)
=============================================================================
