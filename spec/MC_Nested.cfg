SPECIFICATION MCSpec
CONSTANTS
  MaxC = 3
  MaxDepth = 3
  MaxE = 2
  Sizes = {12, 110}
  KSz = 5
  NKeys = 2
  BigKeys = {}
  Wraps = {0}
  Kinds = {"A", "M"}
  Types = {}
  Crashes = TRUE
  Rejects = FALSE
  Persist = FALSE
  EmitDepth = 0
  RareOff = TRUE
  EmitEdges = FALSE
  EmitOneIn = 1
VIEW View
INVARIANTS LiveClosed ParentsAgree
CHECK_DEADLOCK FALSE
