---------------------------- MODULE MultiRunTrace ----------------------------
(***************************************************************************)
(* Multi-run acceptor (C04, C08, C14, C16): the same operation history     *)
(* executed under different schedules of {commit, drop cache, reopen},     *)
(* worker counts, commit kinds, injected commit faults with retries, warm  *)
(* pools, processes and GOMAXPROCS must yield the same per-operation       *)
(* results, the same final content and byte-identical final registers      *)
(* under identical identifiers.  One record per run; runs of one history   *)
(* carry the same t; the first run of a history is the reference.          *)
(***************************************************************************)
EXTENDS Integers, Sequences, Json, TLC

CONSTANTS CheckResults,   \* per-operation results and final content must agree (C08)
          CheckRegs       \* final registers must be byte-identical (C04, C08, C14)

Trace == ndJsonDeserialize("trace.ndjson")

VARIABLES l, ref
tvars == <<l, ref>>

NoRef == [t |-> 0, results |-> <<>>, abs |-> <<>>, regs |-> <<>>]
Init == l = 1 /\ ref = NoRef

Next ==
  /\ l <= Len(Trace) /\ l' = l + 1
  /\ LET r == Trace[l] IN
     ref' = IF r.t # ref.t THEN [t |-> r.t, results |-> r.results, abs |-> r.abs, regs |-> r.regs] ELSE ref

Spec == Init /\ [][Next]_tvars

Cur == Trace[l - 1]
NoHarnessErrors == l > 1 => Cur.errors = <<>>     \* e.g. a commit that never converges, a failed reopen
SameResults == (l > 1 /\ CheckResults) => (Cur.results = ref.results /\ Cur.abs = ref.abs)
\* C08: what a brand-new storage decodes from the final registers is what the run read through its cache
ColdEqualsWarm == l > 1 => (Cur.cold = Cur.abs /\ Cur.coldc = Cur.warmc)     \* at the end and at every commit point
SameRegisters == (l > 1 /\ CheckRegs) => Cur.regs = ref.regs

TraceAccepted ==
  LET d == TLCGet("stats").diameter IN
  IF d - 1 = Len(Trace) THEN TRUE
  ELSE Print(<<"REJECTED_AT", d, Trace[d].t, Trace[d].ev>>, FALSE)
=============================================================================
