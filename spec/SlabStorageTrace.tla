------------------------- MODULE SlabStorageTrace -------------------------
(* Trace specification: validates ndjson traces recorded from the real        *)
(* PersistentSlabStorage (harness command storage-run / storage-random)       *)
(* against SlabStorage.  Every record logs the event, its arguments, its      *)
(* result and the complete observable state after the event, so validation    *)
(* is linear.  Events named in StrictEvents must be explained by the          *)
(* specification's action; the others are adopted (the model follows the      *)
(* implementation) so that a check only judges its own property.              *)
EXTENDS SlabStorage, Json

CONSTANTS StrictEvents
VARIABLE l

Trace == ndJsonDeserialize("trace.ndjson")

TIds      == 1..Len(Trace[1].own)
TOwner    == [i \in TIds |-> Trace[1].own[i]]
TIndex    == [i \in TIds |-> Trace[1].idx[i]]
TVersions == 1..Len(Trace[1].vsz)
TSizeOf(v) == IF v > 0 THEN Trace[1].vsz[v] ELSE 0

Fn(s) == [i \in Ids |-> s[i]]
Rec == Trace[l]
Logged(r) == /\ base' = Fn(r.st.base) /\ cache' = Fn(r.st.cache) /\ deltas' = Fn(r.st.deltas)
Strict(r) == r.ev \in StrictEvents

TraceInit == /\ l = 1 /\ Init

(* Start of a new trace: adopt the logged state as the initial state. *)
TraceLoad(r) ==
  /\ r.ev = "Load" /\ Logged(r)
  /\ pc' = "idle" /\ todo' = {} /\ mode' = "det" /\ par' = FALSE /\ faults' = 1000000
  /\ snap' = NoSnap /\ calls' = <<>> /\ ret' = [NoRet EXCEPT !.op = "load"]

SetOf(s) == {s[i] : i \in 1..Len(s)}

SpecAction(r) ==
  CASE r.ev = "Store"    -> Store(r.id, r.v)
    [] r.ev = "Remove"   -> Remove(r.id)
    [] r.ev = "StoreUndefined"  -> StoreUndefined
    [] r.ev = "RemoveUndefined" -> RemoveUndefined
    [] r.ev = "Retrieve" -> Retrieve(r.id)
    [] r.ev = "RetrieveFail" -> IF NeedsLedger(r.id) THEN RetrieveFail(r.id) ELSE Retrieve(r.id)
    [] r.ev = "RetrieveIfLoaded" -> RetrieveIfLoaded(r.id)
    [] r.ev = "RetrieveIgnoringDeltas" -> RetrieveIgnoringDeltas(r.id, r.c = 1)
    [] r.ev = "DropDeltas" -> DropDeltas
    [] r.ev = "DropCache"  -> DropCache
    [] r.ev = "Recreate"   -> Recreate
    [] r.ev = "BatchPreload" -> BatchPreload(SetOf(r.s))
    [] r.ev = "Observe"    -> Observe
    [] r.ev = "ObserveOwner" -> ObserveOwner(r.id)
    [] r.ev = "CommitBegin" -> CommitBegin(r.mode)
    [] r.ev = "Call"       -> CommitCallOK(r.id)
    [] r.ev = "CallFail"   -> CommitCallFail(r.id)
    [] r.ev = "CommitEnd"  -> CommitEnd
    [] OTHER -> FALSE

(* The model follows the implementation for events outside this check's oracle. *)
Adopt(r) ==
  /\ Logged(r) /\ ret' = r.ret
  /\ pc' = IF r.ev \in {"CommitBegin", "Call"} THEN "commit" ELSE "idle"
  /\ todo' = {} /\ mode' = "det" /\ par' = FALSE /\ faults' = faults
  /\ snap' = NoSnap /\ calls' = <<>>

TraceNext ==
  /\ l <= Len(Trace) /\ l' = l + 1
  /\ LET r == Rec IN
       IF r.ev = "Load" THEN TraceLoad(r)
       ELSE IF Strict(r) THEN SpecAction(r) /\ Logged(r) /\ ret' = r.ret
       ELSE Adopt(r)

TraceSpec == TraceInit /\ [][TraceNext]_<<vars, l>>

TraceAccepted ==
  LET d == TLCGet("stats").diameter IN
  IF d - 1 = Len(Trace) THEN TRUE
  ELSE Print(<<"REJECTED_AT", d, Trace[d].t, Trace[d].ev>>, FALSE)

(* Action properties restated over the extended variable tuple. *)
TViewStable == [][(ret'.op \notin {"store", "remove", "dropdeltas", "recreate", "load"}) => View' = View]_<<vars, l>>
TBaseOnlyInCommit == [][(ret'.op \notin {"call", "load"}) => base' = base]_<<vars, l>>
=============================================================================
