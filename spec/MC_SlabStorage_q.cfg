SPECIFICATION MCSpec
CONSTANTS
  NIds = 3
  EmitEdges = FALSE
  EmitOneIn = 1
  Ids <- MCIds
  Owner <- MCOwner
  Index <- MCIndex
  Versions = {1, 2}
  MaxFaults = 1
  SizeOf <- MCSizeOf
VIEW StateView
INVARIANTS TypeOK CacheCoherent TempNeverWritten ReadYourWrites CommitOK CommitFailedLosesNothing DetOrder DropReverts
PROPERTIES ViewStable BaseOnlyInCommit
CHECK_DEADLOCK FALSE
