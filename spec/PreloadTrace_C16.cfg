SPECIFICATION Spec
INVARIANTS Returns SameError Outcome
POSTCONDITION TraceAccepted
CHECK_DEADLOCK FALSE
