---------------------------- MODULE SlabStorage ----------------------------
(***************************************************************************)
(* PersistentSlabStorage of onflow/atree (storage.go) as a write-back      *)
(* overlay: ledger registers (base) <- read cache <- write set (deltas).   *)
(* One action per exported method; both commits are split into one action  *)
(* per BaseStorage.Store/Remove call (the per-register linearization       *)
(* point), each of which may fail (fault injection).                       *)
(*                                                                         *)
(* Values: None = no entry / absent register, Nil = entry holding nil      *)
(* (pending or committed deletion), v \in Versions = a slab version.       *)
(* Decides C15, C14 and the storage parts of C03 / C04.                    *)
(***************************************************************************)
EXTENDS Integers, Sequences, FiniteSets, TLC

CONSTANTS Ids,        \* model identifiers 1..N
          Owner,      \* [Ids -> Nat], 0 = temporary (zero) address
          Index,      \* [Ids -> Nat], slab index inside the owner
          Versions,   \* slab versions (positive ints)
          MaxFaults   \* budget of failing ledger writes

None == 0
Nil  == -1

VARIABLES base,    \* ledger registers        [Ids -> Versions \cup {None}]
          cache,   \* read cache              [Ids -> Versions \cup {None, Nil}]
          deltas,  \* write set               [Ids -> Versions \cup {None, Nil}]
          pc,      \* "idle" | "commit"
          todo,    \* owned keys still to be written by the running commit
          mode,    \* "det" | "nondet"
          par,     \* running order-relaxed commit took the parallel path (>= 2 modified slabs)
          faults,  \* remaining fault budget
          snap,    \* View at the start of the running / last commit
          calls,   \* ledger calls of the running / last commit: <<id, ok>>
          ret      \* result of the last action (output only)

svars == <<base, cache, deltas, pc, todo, mode, par, faults, snap, calls>>
vars  == <<base, cache, deltas, pc, todo, mode, par, faults, snap, calls, ret>>

Owned == {i \in Ids : Owner[i] # 0}
Less(a, b) == Owner[a] < Owner[b] \/ (Owner[a] = Owner[b] /\ Index[a] < Index[b])

Val(x) == IF x = Nil THEN None ELSE x
ViewOf(d, b) == [i \in Ids |-> IF d[i] = None THEN b[i] ELSE Val(d[i])]
View == ViewOf(deltas, base)

NoRet == [op |-> "init", id |-> 0, val |-> 0, ok |-> TRUE, err |-> "", n |-> 0, m |-> 0, sz |-> 0, it |-> 0, cnt |-> 0]
R(op, id, val) == [NoRet EXCEPT !.op = op, !.id = id, !.val = val]

Init == /\ base = [i \in Ids |-> None] /\ cache = [i \in Ids |-> None] /\ deltas = [i \in Ids |-> None]
        /\ pc = "idle" /\ todo = {} /\ mode = "det" /\ par = FALSE /\ faults = MaxFaults
        /\ snap = [i \in Ids |-> None] /\ calls = <<>> /\ ret = NoRet

Idle == pc = "idle"
NoSnap == [i \in Ids |-> None]
(* Bookkeeping of the last commit (snap, calls, mode, par) is forgotten by the next action,
   so that it does not multiply the state space. *)
Forget == /\ snap' = NoSnap /\ calls' = <<>> /\ mode' = "det" /\ par' = FALSE
          /\ UNCHANGED <<pc, todo, faults>>

-----------------------------------------------------------------------------
(* Writes to the write set only. *)
Store(i, v) ==
  /\ Idle /\ deltas' = [deltas EXCEPT ![i] = v] /\ ret' = R("store", i, v)
  /\ UNCHANGED <<base, cache>> /\ Forget

Remove(i) ==
  /\ Idle /\ deltas' = [deltas EXCEPT ![i] = Nil] /\ ret' = R("remove", i, 0)
  /\ UNCHANGED <<base, cache>> /\ Forget

(* Store / Remove with the undefined identifier: refused, nothing changes. *)
StoreUndefined ==
  /\ Idle /\ ret' = [R("storeundef", 0, 0) EXCEPT !.ok = FALSE, !.err = "SlabIDError"]
  /\ UNCHANGED <<base, cache, deltas>> /\ Forget
RemoveUndefined ==
  /\ Idle /\ ret' = [R("removeundef", 0, 0) EXCEPT !.ok = FALSE, !.err = "SlabIDError"]
  /\ UNCHANGED <<base, cache, deltas>> /\ Forget

(* Reads: deltas, then cache, then ledger (which fills the cache). *)
NeedsLedger(i) == deltas[i] = None /\ cache[i] = None
Retrieve(i) ==
  /\ Idle
  /\ IF deltas[i] # None THEN ret' = R("retrieve", i, Val(deltas[i])) /\ UNCHANGED cache
     ELSE IF cache[i] # None THEN ret' = R("retrieve", i, Val(cache[i])) /\ UNCHANGED cache
     ELSE /\ ret' = R("retrieve", i, base[i])
          /\ cache' = IF base[i] # None THEN [cache EXCEPT ![i] = base[i]] ELSE cache
  /\ UNCHANGED <<base, deltas>> /\ Forget

(* A ledger read that fails: reported as an external error, nothing changes. *)
RetrieveFail(i) ==
  /\ Idle /\ NeedsLedger(i)
  /\ ret' = [R("retrieve", i, 0) EXCEPT !.ok = FALSE, !.err = "external"]
  /\ UNCHANGED <<base, cache, deltas>> /\ Forget

RetrieveIfLoaded(i) ==
  /\ Idle
  /\ ret' = R("ifloaded", i, IF deltas[i] # None THEN Val(deltas[i])
                             ELSE IF cache[i] # None THEN Val(cache[i]) ELSE None)
  /\ UNCHANGED <<base, cache, deltas>> /\ Forget

RetrieveIgnoringDeltas(i, c) ==
  /\ Idle
  /\ IF cache[i] # None THEN ret' = R("ignoring", i, Val(cache[i])) /\ UNCHANGED cache
     ELSE /\ ret' = R("ignoring", i, base[i])
          /\ cache' = IF c /\ base[i] # None THEN [cache EXCEPT ![i] = base[i]] ELSE cache
  /\ UNCHANGED <<base, deltas>> /\ Forget

DropDeltas ==
  /\ Idle /\ deltas' = [i \in Ids |-> None] /\ ret' = R("dropdeltas", 0, 0)
  /\ UNCHANGED <<base, cache>> /\ Forget

DropCache ==
  /\ Idle /\ cache' = [i \in Ids |-> None] /\ ret' = R("dropcache", 0, 0)
  /\ UNCHANGED <<base, deltas>> /\ Forget

(* A brand-new storage object over the same ledger (crash / reopen). *)
Recreate ==
  /\ Idle /\ cache' = [i \in Ids |-> None] /\ deltas' = [i \in Ids |-> None]
  /\ ret' = R("recreate", 0, 0)
  /\ UNCHANGED base /\ Forget

BatchPreload(S) ==
  /\ Idle
  /\ cache' = [i \in Ids |-> IF i \in S /\ base[i] # None THEN base[i] ELSE cache[i]]
  /\ ret' = R("preload", 0, 0)
  /\ UNCHANGED <<base, deltas>> /\ Forget

(* Observers: pending-change counts and sizes.  Size(v) is the byte size a slab
   of version v reports; supplied by the trace / model configuration. *)
CONSTANT SizeOf(_)
RECURSIVE SumSizes(_)
SumSizes(S) == IF S = {} THEN 0
               ELSE LET i == CHOOSE x \in S : TRUE IN SizeOf(deltas[i]) + SumSizes(S \ {i})
DeltasCount       == Cardinality({i \in Ids : deltas[i] # None})
OwnedDeltasCount  == Cardinality({i \in Owned : deltas[i] # None})
OwnedDeltasSize   == SumSizes({i \in Owned : deltas[i] # None /\ deltas[i] # Nil})
HasUnsaved(o)     == \E i \in Ids : Owner[i] = o /\ deltas[i] # None

\* SlabIterator: every slab in the write set, then every cached slab not shadowed by the write set (nil entries - pending or
\* committed deletions - are skipped; slabs here carry no references, so nothing more is reached).  Reported as a bit mask.
RECURSIVE Mask(_)
Mask(S) == IF S = {} THEN 0 ELSE LET x == CHOOSE y \in S : TRUE IN 2 ^ (x - 1) + Mask(S \ {x})
IterSet == {i \in Ids : deltas[i] \notin {None, Nil}} \cup {i \in Ids : deltas[i] = None /\ cache[i] \notin {None, Nil}}
\* Count(): the number of committed registers (pending changes are not counted)
RegCount == Cardinality({i \in Ids : base[i] # None})
Observe ==
  /\ Idle
  /\ ret' = [R("observe", 0, 0) EXCEPT !.n = DeltasCount, !.m = OwnedDeltasCount, !.sz = OwnedDeltasSize,
                                       !.it = Mask(IterSet), !.cnt = RegCount]
  /\ UNCHANGED <<base, cache, deltas>> /\ Forget
ObserveOwner(o) ==
  /\ Idle
  /\ ret' = [R("unsaved", o, IF HasUnsaved(o) THEN 1 ELSE 0) EXCEPT !.n = 0]
  /\ UNCHANGED <<base, cache, deltas>> /\ Forget

-----------------------------------------------------------------------------
(* Commits.  FastCommit: owned keys in ascending (owner, index).
   NondeterministicFastCommit: fewer than two modified slabs -> sequential path,
   the modified slab first, then the deletions in any order; otherwise deletions
   first (any order), then stores in the order the encodings arrive (any order). *)
CommitBegin(m) ==
  /\ Idle
  /\ todo' = {i \in Owned : deltas[i] # None}
  /\ mode' = m
  /\ par' = (m = "nondet" /\ Cardinality({i \in Owned : deltas[i] # None /\ deltas[i] # Nil}) >= 2)
  /\ pc' = "commit" /\ calls' = <<>> /\ snap' = View
  /\ ret' = R("commitbegin", 0, 0)
  /\ UNCHANGED <<base, cache, deltas, faults>>

Dels(S) == {i \in S : deltas[i] = Nil}
NextKeys ==
  IF mode = "det" THEN {i \in todo : \A j \in todo : j = i \/ Less(i, j)}
  ELSE IF par THEN (IF Dels(todo) # {} THEN Dels(todo) ELSE todo)
  ELSE (IF todo \ Dels(todo) # {} THEN todo \ Dels(todo) ELSE todo)

CommitCallOK(i) ==          \* one BaseStorage.Store/Remove call that succeeds
  /\ pc = "commit" /\ i \in NextKeys
  /\ base'   = [base EXCEPT ![i] = Val(deltas[i])]
  /\ cache'  = [cache EXCEPT ![i] = deltas[i]]        \* Nil is cached too: committed deletion
  /\ deltas' = [deltas EXCEPT ![i] = None]
  /\ todo' = todo \ {i} /\ calls' = Append(calls, <<i, TRUE>>)
  /\ ret' = R("call", i, 1)
  /\ UNCHANGED <<pc, mode, par, faults, snap>>

CommitCallFail(i) ==        \* the call fails: no effect, the commit returns an external error
  /\ pc = "commit" /\ i \in NextKeys /\ faults > 0 /\ faults' = faults - 1
  /\ pc' = "idle" /\ todo' = {} /\ calls' = Append(calls, <<i, FALSE>>)
  /\ ret' = [R("commitend", i, 0) EXCEPT !.ok = FALSE, !.err = "external"]
  /\ UNCHANGED <<base, cache, deltas, mode, par, snap>>

CommitEnd ==
  /\ pc = "commit" /\ todo = {} /\ pc' = "idle"
  /\ ret' = R("commitend", 0, 0)
  /\ UNCHANGED <<base, cache, deltas, todo, mode, par, faults, snap, calls>>

Next ==
  \/ \E i \in Ids, v \in Versions : Store(i, v)
  \/ \E i \in Ids : Remove(i) \/ Retrieve(i) \/ RetrieveFail(i) \/ RetrieveIfLoaded(i)
  \/ \E i \in Ids, c \in BOOLEAN : RetrieveIgnoringDeltas(i, c)
  \/ StoreUndefined \/ RemoveUndefined
  \/ DropDeltas \/ DropCache \/ Recreate
  \/ \E S \in SUBSET Ids : BatchPreload(S)
  \/ Observe \/ (\E o \in {Owner[i] : i \in Ids} : ObserveOwner(o))
  \/ \E m \in {"det", "nondet"} : CommitBegin(m)
  \/ \E i \in Ids : CommitCallOK(i) \/ CommitCallFail(i)
  \/ CommitEnd

Spec == Init /\ [][Next]_vars

-----------------------------------------------------------------------------
(* Properties *)
TypeOK ==
  /\ base \in [Ids -> Versions \cup {None}]
  /\ cache \in [Ids -> Versions \cup {None, Nil}]
  /\ deltas \in [Ids -> Versions \cup {None, Nil}]
  /\ pc \in {"idle", "commit"} /\ todo \subseteq Owned

(* C15: a cache entry always equals the register (Nil iff the register is absent). *)
CacheCoherent == \A i \in Ids : cache[i] # None =>
                    (IF cache[i] = Nil THEN base[i] = None ELSE base[i] = cache[i])

(* C03: slabs of the temporary address are never written. *)
TempNeverWritten == \A i \in Ids \ Owned : base[i] = None

(* C15: every read returns the view. *)
ReadYourWrites ==
  /\ (ret.op = "retrieve" /\ ret.ok) => ret.val = View[ret.id]
  /\ (ret.op = "ifloaded" /\ ret.val # None) => ret.val = View[ret.id]
  /\ (ret.op = "ignoring") => ret.val = base[ret.id]

(* C15 / C03: a successful commit makes the ledger equal to the view at its start,
   empties the owned write set and leaves temporary entries pending. *)
CommitOK == (Idle /\ ret.op = "commitend" /\ ret.ok) =>
              /\ \A i \in Owned : deltas[i] = None /\ base[i] = snap[i]
              /\ View = snap

(* C14: after a failed commit nothing is lost: the view is the one at commit start and
   every owned change that has not reached the ledger is still pending. *)
CommitFailedLosesNothing == (Idle /\ ret.op = "commitend" /\ ~ret.ok) =>
              /\ View = snap
              /\ \A i \in Owned : base[i] # snap[i] => deltas[i] # None

(* C04: the deterministic commit issues its calls in ascending (owner, index). *)
DetOrder == (mode = "det") =>
              \A a, b \in 1..Len(calls) : a < b => Less(calls[a][1], calls[b][1])

(* C15: the view only changes through Store / Remove / DropDeltas / Recreate. *)
ViewStable == [][(ret'.op \notin {"store", "remove", "dropdeltas", "recreate"}) => View' = View]_vars

(* C03: the ledger only changes inside a commit call. *)
BaseOnlyInCommit == [][(ret'.op # "call") => base' = base]_vars

(* C15: dropping the write set and the cache reverts the view to the ledger. *)
DropReverts == (ret.op \in {"recreate"}) => View = base

(* Hide output-only variables when exploring. *)
StateView == svars
=============================================================================
