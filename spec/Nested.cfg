SPECIFICATION Spec
CONSTANTS
  MaxC = 6
  MaxDepth = 3
  MaxE = 6
  Sizes = {12, 60, 110}
  KSz = 5
  NKeys = 4
  BigKeys = {4}
  Wraps = {0, 1, 2}
  Kinds = {"A", "M", "C"}
  Types = {43, 44, 45, 107, 108}
  Crashes = TRUE
  Rejects = FALSE
  Persist = TRUE
  EmitDepth = 80
  RareOff = FALSE
INVARIANTS LiveClosed ParentsAgree EmitWalk
CHECK_DEADLOCK FALSE
