SPECIFICATION Spec
INVARIANTS ClientsAsSolo
POSTCONDITION TraceAccepted
CHECK_DEADLOCK FALSE
