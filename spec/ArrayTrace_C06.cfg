SPECIFICATION Spec
CONSTANTS
  T <- TraceT
  StrictA = FALSE
  CheckCat = FALSE
INVARIANTS SizesAgree OtherSizesAgree EncodedLenRelation
POSTCONDITION TraceAccepted
CHECK_DEADLOCK FALSE
