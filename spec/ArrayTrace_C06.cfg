SPECIFICATION Spec
CONSTANTS
  T <- TraceT
  StrictA = FALSE
  CheckCat = FALSE
INVARIANTS SizesAgree
POSTCONDITION TraceAccepted
CHECK_DEADLOCK FALSE
