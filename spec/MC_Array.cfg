SPECIFICATION Spec
CONSTANTS
  T = 256
  Sizes = {19, 60, 117, 130}
  MaxElems = 5
  EmitEdges = FALSE
  EmitOneIn = 1
  EmitExact = FALSE
  WithReads = TRUE
  AllowPop = TRUE
  GrowUntil = 0
  ShrinkFrom = 1000000
  AppendOnly = FALSE
  Persist = FALSE
  WithTree = TRUE
  EmitDepth = 0
  FanFrom = 0
VIEW View
INVARIANTS WellFormed Refines ReadsAgree Routing
CHECK_DEADLOCK FALSE
