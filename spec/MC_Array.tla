------------------------------ MODULE MC_Array ------------------------------
(* Bounded exploration of the array algorithm (layer C) against the sequence  *)
(* semantics (layer A).  TLC checks, in every reachable shape, that the tree   *)
(* is well formed and flattens to the sequence, that both routing procedures   *)
(* agree, and prints for every explored transition the history reaching it,    *)
(* which the harness replays into the real Array.                              *)
EXTENDS ArrayTree, ArraySeq, Json

CONSTANTS Sizes,      \* value sizes to insert (some above the inline limit)
          MaxElems,   \* bound on the number of elements
          EmitEdges, EmitOneIn,
          EmitExact,  \* print only the transitions whose successor tree has a slab sitting EXACTLY on a threshold (see OnEdge)
          WithReads,  \* also explore Get and the rejected (out-of-range) requests
          AllowPop,   \* explore PopIterate
          GrowUntil,  \* simulation walks: only inserts / overwrites before this step ...
          ShrinkFrom, \* ... and only removals / overwrites from this step on (0, large = no phases)
          AppendOnly, \* explore only appends: every element-size stream (bulk-build sources, C17)
          Persist,    \* also explore commit (both kinds, 1..3 workers), cache drop and crash (abandon + reopen) events
          WithTree,   \* FALSE (walk generation): layer A alone - the tree is not computed (simulating layer C costs seconds per step
                      \* on trees of a few hundred elements; the walks are judged on the real code, layer C is checked breadth-first)
          EmitDepth,  \* simulation: print the history of a walk when it reaches this length (0 = off)
          FanFrom     \* simulation: print the history at every length FanFrom..EmitDepth; inside that window all inserts, overwrites and
                      \* removals are ONE action, so that TLC's simulator generates (and prints) the complete one-step closure of every
                      \* state the walk passes through there (= EmitDepth: no window)

VARIABLES tree, seq, nextId, hist, res,
          ctree, cseq    \* tree and sequence at the last commit (ctree = "none" before the first)

mvars == <<tree, seq, nextId, hist, res, ctree, cseq>>

Elem(vsz) == [id |-> nextId, vsz |-> vsz]
\* EmitOneIn > 1: print only a random sample of the explored transitions (the value of the conjunct is TRUE either way)
\* a slab exactly on a threshold: a non-root slab of exactly the minimum or the maximum size, a root of exactly the maximum size.
\* Comparisons that decide lending, borrowing, merging and splitting change their outcome exactly there ('>=' against '>').
RECURSIVE OnEdge(_, _)
OnEdge(n, isRoot) == \/ ~isRoot /\ Size(n) \in {MinT, MaxT}
                     \/ isRoot /\ RootSize(n) = MaxT
                     \/ n.k = "m" /\ \E i \in 1..Len(n.c) : OnEdge(n.c[i], FALSE)
Emit(h) == IF EmitEdges /\ (~EmitExact \/ OnEdge(tree', TRUE)) /\ (EmitOneIn <= 1 \/ RandomElement(1..EmitOneIn) = 1) THEN PrintT(ToJson(h)) ELSE TRUE
Step(o) == hist' = Append(hist, o) /\ Emit(hist')

NoTree0 == [k |-> "none"]
Init == tree = EmptyTree /\ seq = <<>> /\ nextId = 1 /\ hist = <<>> /\ res = Ok(0) /\ ctree = NoTree0 /\ cseq = <<>>

N == IF WithTree THEN Count(tree) ELSE Len(seq)

Insert(i, vsz) ==
  /\ N < MaxElems
  /\ LET x == Elem(vsz)  a == AIns(seq, i, x.id) IN
     /\ seq' = a.s /\ res' = a.r
     /\ tree' = IF WithTree /\ a.r.class = "ok" THEN TInsert(tree, i, x) ELSE tree
     /\ nextId' = nextId + 1 /\ UNCHANGED <<ctree, cseq>>
     /\ Step(<<"ins", i, x.id, vsz>>)

Set(i, vsz) ==
  /\ LET x == Elem(vsz)  a == ASet(seq, i, x.id) IN
     /\ seq' = a.s /\ res' = a.r
     /\ tree' = IF WithTree /\ a.r.class = "ok" THEN TSet(tree, i, x) ELSE tree
     /\ nextId' = nextId + 1 /\ UNCHANGED <<ctree, cseq>>
     /\ Step(<<"set", i, x.id, vsz>>)

Remove(i) ==
  /\ LET a == ARem(seq, i) IN
     /\ seq' = a.s /\ res' = a.r
     /\ tree' = IF WithTree /\ a.r.class = "ok" THEN TRemove(tree, i) ELSE tree
     /\ UNCHANGED <<nextId, ctree, cseq>>
     /\ Step(<<"rem", i>>)

Get(i) ==
  /\ LET a == AGet(seq, i) IN
     /\ res' = a.r /\ UNCHANGED <<tree, seq, nextId, ctree, cseq>>
     /\ Step(<<"get", i>>)

\* a type change touches the root's extra data only: content and shape unchanged (C01: "type changes")
SetType(ti) ==
  /\ WithReads /\ res' = Ok(0) /\ UNCHANGED <<tree, seq, nextId, ctree, cseq>>
  /\ Step(<<"settype", ti>>)

Pop ==
  /\ N > 0 /\ AllowPop
  /\ seq' = <<>> /\ tree' = (IF WithTree THEN TPop(tree) ELSE tree) /\ res' = Ok(0) /\ UNCHANGED <<nextId, ctree, cseq>>
  /\ Step(<<"pop">>)

NoTree == [k |-> "none"]
\* persistence events: layer-A stuttering steps (commit, drop cache) and the crash that reverts to the last commit
Commit(m, w) == /\ Persist /\ ctree' = tree /\ cseq' = seq /\ res' = Ok(0) /\ UNCHANGED <<tree, seq, nextId>>
                /\ Step(<<"commit", m, w, 0>>)
DropCache == Persist /\ res' = Ok(0) /\ UNCHANGED <<tree, seq, nextId, ctree, cseq>> /\ Step(<<"dropcache">>)
Crash == /\ Persist /\ ctree.k # "none" /\ tree' = ctree /\ seq' = cseq /\ res' = Ok(0) /\ UNCHANGED <<nextId, ctree, cseq>>
         /\ Step(<<"crash">>)

\* out-of-range requests: count (+1 for insert) and indices beyond 32 bits, written -(k+1) for 2^32 + k
\* (TLC integers are 32-bit; the harness translates)
Big == IF WithReads THEN {-1, -2} ELSE {}
Growing == Len(hist) < GrowUntil
Shrinking == Len(hist) >= ShrinkFrom
InFan == FanFrom < EmitDepth /\ Len(hist) >= FanFrom
FanNext == \E c \in ({"i"} \X (0..N) \X Sizes) \cup ({"s"} \X (0..(N - 1)) \X Sizes) \cup ({"r"} \X (0..(N - 1)) \X {0}) :
             IF c[1] = "i" THEN Insert(c[2], c[3]) ELSE IF c[1] = "s" THEN Set(c[2], c[3]) ELSE Remove(c[2])
Next ==
  IF AppendOnly THEN \E s \in Sizes : Insert(N, s) ELSE
  IF InFan THEN FanNext ELSE
  \/ ~Shrinking /\ \E i \in (0..(IF WithReads THEN N + 1 ELSE N)) \cup Big, s \in Sizes : Insert(i, s)
  \/ Shrinking /\ N = 0 /\ \E s \in Sizes : Insert(0, s)   \* never deadlock before EmitDepth
  \/ Growing /\ \E s \in Sizes : Insert(N, s)          \* appends: a second insert disjunct biases walks towards growth
  \/ \E i \in (0..(IF WithReads THEN N ELSE N - 1)) \cup Big, s \in Sizes : Set(i, s)
  \/ ~Growing /\ \E i \in (0..(IF WithReads THEN N ELSE N - 1)) \cup Big : Remove(i)
  \/ WithReads /\ \E i \in (0..N) \cup Big : Get(i)
  \/ \E ti \in {43, 44} : SetType(ti)
  \/ Pop
  \/ \E m \in {"det", "nondet"}, w \in {1, 3} : Commit(m, w)
  \/ DropCache \/ Crash

Spec == Init /\ [][Next]_mvars

\* ---- properties of the design
WellFormed == WFNode(tree, TRUE) /\ SameDepth(tree)
Ids(s) == [i \in 1..Len(s) |-> s[i].id]
Refines == Ids(Flatten(tree)) = seq                              \* C refines A
ReadsAgree == \A i \in 0..(N - 1) : ElemAt(tree, i).id = seq[i + 1]
RECURSIVE RoutingOK(_)
RoutingOK(n) == n.k = "d" \/ (/\ \A idx \in 0..(Count(n) - 1) : RoutingAgrees(n.c, idx)
                              /\ \A i \in 1..Len(n.c) : RoutingOK(n.c[i]))
Routing == RoutingOK(tree)
\* a merge never produces an oversize slab and a rebalance never leaves an underflow: part of WellFormed

View == <<Shape(tree), IF ctree.k = "none" THEN <<>> ELSE <<Shape(ctree)>> >>
\* simulation mode: one JSON line per walk, printed when the walk reaches EmitDepth operations
EmitWalk == (EmitDepth > 0 /\ Len(hist) >= FanFrom /\ Len(hist) <= EmitDepth) => PrintT(ToJson(hist))
=============================================================================
