SPECIFICATION Spec
CONSTANTS
  StrictA = FALSE
  CheckCat = FALSE
  CheckOrder = FALSE
INVARIANTS DetOrder
POSTCONDITION TraceAccepted
CHECK_DEADLOCK FALSE
