---------------------------- MODULE MC_Thresholds ----------------------------
(* Steps the configured slab size through every legal value and checks the lemmas. *)
EXTENDS Thresholds
VARIABLE t
Init == t = MinSlabSize
Next == t < MaxSlabSize /\ t' = t + 1
Spec == Init /\ [][Next]_t
Lemmas == AllLemmas(t)
=============================================================================
