SPECIFICATION Spec
CONSTANTS
  T <- TraceT
  StrictA = TRUE
  CheckCat = FALSE
INVARIANTS RefinesSeq IterOK PartialOK
POSTCONDITION TraceAccepted
CHECK_DEADLOCK FALSE
