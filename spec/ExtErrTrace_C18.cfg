SPECIFICATION Spec
INVARIANTS InjectedIsExternal OtherwiseNormal
POSTCONDITION TraceAccepted
CHECK_DEADLOCK FALSE
