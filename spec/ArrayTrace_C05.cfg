SPECIFICATION Spec
CONSTANTS
  T <- TraceT
  StrictA = FALSE
  CheckCat = FALSE
INVARIANTS WellFormed
POSTCONDITION TraceAccepted
CHECK_DEADLOCK FALSE
