SPECIFICATION Spec
CONSTANTS
  T <- TraceT
  StrictA = FALSE
  CheckCat = FALSE
INVARIANTS WellFormed OtherWellFormed
POSTCONDITION TraceAccepted
CHECK_DEADLOCK FALSE
