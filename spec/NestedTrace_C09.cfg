SPECIFICATION Spec
CONSTANTS
  StrictA = FALSE
INVARIANTS NoLeak NoLeakInLedger ColdResolves
POSTCONDITION TraceAccepted
CHECK_DEADLOCK FALSE
