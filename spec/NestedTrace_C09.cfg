SPECIFICATION Spec
CONSTANTS
  StrictA = FALSE
INVARIANTS NoLeak
POSTCONDITION TraceAccepted
CHECK_DEADLOCK FALSE
