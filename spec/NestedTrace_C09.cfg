SPECIFICATION Spec
CONSTANTS
  StrictA = FALSE
INVARIANTS NoLeak NoLeakInLedger
POSTCONDITION TraceAccepted
CHECK_DEADLOCK FALSE
