SPECIFICATION Spec
CONSTANTS
  W = 2
  NJobs = 3
  Pad = 1
  ReadFail = 0
  DecErr = 0
  DeferOrder = "lifo"
  EmitSchedules = FALSE
INVARIANTS NoSendOnClosed ResultsNeverBlock Outcome EmitAtReturn
PROPERTIES Returns AllWorkersExit
