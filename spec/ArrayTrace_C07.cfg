SPECIFICATION Spec
CONSTANTS
  T <- TraceT
  StrictA = FALSE
  CheckCat = FALSE
INVARIANTS ColdEqualsWarm ColdWellFormed ReencodesExactly FlagsTruthful
POSTCONDITION TraceAccepted
CHECK_DEADLOCK FALSE
