SPECIFICATION Spec
CONSTANTS
  T <- TraceT
  StrictA = FALSE
  CheckCat = FALSE
INVARIANTS ColdEqualsWarm ColdWellFormed
POSTCONDITION TraceAccepted
CHECK_DEADLOCK FALSE
