SPECIFICATION TraceSpec
CONSTANTS
  Ids <- TIds
  Owner <- TOwner
  Index <- TIndex
  Versions <- TVersions
  MaxFaults = 1000000
  SizeOf <- TSizeOf
  StrictEvents = {"CommitBegin","Call","CallFail","CommitEnd"}
INVARIANTS DetOrder
POSTCONDITION TraceAccepted
CHECK_DEADLOCK FALSE
