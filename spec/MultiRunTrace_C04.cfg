SPECIFICATION Spec
CONSTANTS
  CheckResults = FALSE
  CheckRegs = TRUE
INVARIANTS NoHarnessErrors SameResults SameRegisters
POSTCONDITION TraceAccepted
CHECK_DEADLOCK FALSE
