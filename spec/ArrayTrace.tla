----------------------------- MODULE ArrayTrace -----------------------------
(***************************************************************************)
(* Trace specification for the array engine.  Each ndjson record is one    *)
(* public call on the real Array at its return: event, arguments, result,  *)
(* the content read back through the public iterator (abs) and the         *)
(* projected slab forest (F).  Layer A (ArraySeq) must explain every       *)
(* event; layer B (TreeInv) is evaluated on every observed forest; layer C *)
(* (ArrayTree) is compared as non-verdict "drift".                         *)
(***************************************************************************)
EXTENDS ArraySeq, ArrayTree, Json, TLC

CONSTANTS StrictA,    \* TRUE: results and content must follow layer A; FALSE: the model adopts the observed content
          CheckCat    \* TRUE: error categories are part of the verdict (C18)

INSTANCE TreeInv

Trace == ndJsonDeserialize("trace.ndjson")
TraceT == Trace[1].cfg.T

VARIABLES l,      \* next record
          seq,    \* layer A: element ids
          rid,    \* root identifier observed at the start of the trace
          typ,    \* type info token
          committed, \* layer A content at the last successful commit
          known,     \* the committed snapshot is known (a commit succeeded since the trace started and none failed since)
          lcalls     \* ledger write calls observed so far

tvars == <<l, seq, rid, typ, committed, known, lcalls>>

AbsIds(abs) == [i \in 1..Len(abs) |-> abs[i].v]
Root(r) == r.roots[1]
Forest(r) == r.roots[1].F[1]

\* observed forest -> model tree (layer C input)
RECURSIVE TreeOf(_)
TreeOf(n) == IF n.k = "d" THEN Data([i \in 1..Len(n.e) |-> [id |-> n.e[i].v, vsz |-> n.e[i].vsz]])
             ELSE Meta([i \in 1..Len(n.c) |-> TreeOf(n.c[i])])
Plain(n) == \A x \in {AFlattenElems(n)[i] : i \in 1..Len(AFlattenElems(n))} : x.c \in {"s", "L"} /\ x.w = 0

Init == l = 1 /\ seq = <<>> /\ rid = 0 /\ typ = "" /\ committed = <<>> /\ known = FALSE /\ lcalls = 0

ResOK(r, m) == /\ r.res.class = m.class
               /\ (CheckCat => r.res.cat = m.cat)
               /\ (m.class = "ok" => r.res.v = m.v)

X(r) == [id |-> r.e.id, vsz |-> r.e.sz]

LayerC(r, prev) ==    \* shape predicted by the transcription of the algorithm
  LET t == TreeOf(Forest(prev)) IN
  CASE r.ev = "AInsert" -> TInsert(t, r.i, X(r))
    [] r.ev = "ASet"    -> TSet(t, r.i, X(r))
    [] r.ev = "ARemove" -> TRemove(t, r.i)
    [] r.ev = "APop"    -> TPop(t)
    [] OTHER -> t
InRange(r, n) == CASE r.ev = "AInsert" -> r.i >= 0 /\ r.i <= n
                    [] r.ev \in {"ASet", "ARemove"} -> r.i >= 0 /\ r.i < n
                    [] OTHER -> TRUE
Drifted(r) ==
  IF l = 1 \/ r.res.class # "ok" \/ Trace[l - 1].t # r.t \/ ~Plain(Forest(Trace[l - 1])) \/ ~Plain(Forest(r))
     \/ r.ev \in {"Crash", "AMutIter", "AAppend"}     \* state-changing events that layer C does not transcribe
     \/ ~InRange(r, Len(AFlattenElems(Forest(Trace[l - 1])))) THEN 0
  ELSE IF Shape(LayerC(r, Trace[l - 1])) = Shape(TreeOf(Forest(r))) THEN 0 ELSE 1

Step(r, m) ==     \* m: [s |-> new sequence, r |-> expected result]
  IF StrictA THEN /\ ResOK(r, m.r) /\ seq' = m.s
  ELSE seq' = AbsIds(Root(r).abs)

Next ==
  /\ l <= Len(Trace) /\ l' = l + 1
  /\ LET r == Trace[l] IN
     /\ IF r.ev \in {"Load", "Commit"} THEN lcalls' = r.st.calls ELSE UNCHANGED lcalls
     /\ IF r.ev \in {"Load", "Commit", "Crash"} THEN TRUE ELSE UNCHANGED <<committed, known>>
     /\ CASE r.ev = "Load" ->
               /\ seq' = AbsIds(Root(r).abs) /\ rid' = Root(r).rid /\ typ' = Root(r).ti
               /\ known' = r.known /\ committed' = (IF r.known THEN AbsIds(r.cold[1].abs) ELSE <<>>)
          [] r.ev = "Commit" ->       \* a layer-A stuttering step; success makes the current content the durable one
               /\ UNCHANGED <<seq, rid, typ>>
               /\ IF r.res.class = "ok" THEN committed' = seq /\ known' = TRUE
                  ELSE committed' = committed /\ known' = FALSE
          [] r.ev = "DropCache" -> UNCHANGED <<seq, rid, typ>>
          [] r.ev = "Crash" ->        \* abandon the storage: the content is that of the last successful commit
               /\ UNCHANGED <<rid, typ, committed, known>>
               /\ (StrictA /\ known => r.res.class = "ok")
               /\ seq' = (IF StrictA /\ known THEN committed ELSE AbsIds(Root(r).abs))
          [] r.ev \in {"AInsert", "AAppend"} ->
               /\ Step(r, AIns(seq, IF r.ev = "AAppend" THEN Len(seq) ELSE r.i, r.e.id)) /\ UNCHANGED <<rid, typ>>
          [] r.ev = "ASet" ->
               /\ Step(r, ASet(seq, r.i, r.e.id)) /\ UNCHANGED <<rid, typ>>
          [] r.ev = "ARemove" ->
               /\ Step(r, ARem(seq, r.i)) /\ UNCHANGED <<rid, typ>>
          [] r.ev = "AGet" ->
               /\ Step(r, AGet(seq, r.i)) /\ UNCHANGED <<rid, typ>>
          [] r.ev = "APop" ->
               /\ (StrictA => r.res.class = "ok" /\ r.res.seq = SeqReverse(seq))
               /\ seq' = (IF StrictA THEN <<>> ELSE AbsIds(Root(r).abs)) /\ UNCHANGED <<rid, typ>>
          [] r.ev = "ASetType" ->
               /\ (StrictA => r.res.class = "ok")
               /\ typ' = (IF StrictA THEN "S" \o ToString(r.ti) ELSE Root(r).ti)
               /\ seq' = (IF StrictA THEN seq ELSE AbsIds(Root(r).abs)) /\ UNCHANGED rid
          [] r.ev \in {"AIterProbe", "APartialProbe", "ABatch", "ACopy", "AOtherDisposed"} ->    \* observations: the array itself is not changed
               /\ seq' = (IF StrictA THEN seq ELSE AbsIds(Root(r).abs)) /\ UNCHANGED <<rid, typ>>
          [] r.ev = "AMutIter" ->      \* mutable iteration overwriting the current element at the positions in mask
               /\ (StrictA => r.res.class = "ok" /\ r.probe.iters[1].ids = seq)
               /\ seq' = (IF StrictA THEN [i \in 1..Len(seq) |->
                                             IF \E k \in 1..Len(r.probe.mask) : r.probe.mask[k] = i - 1
                                             THEN r.probe.newids[CHOOSE k \in 1..Len(r.probe.mask) : r.probe.mask[k] = i - 1]
                                             ELSE seq[i]]
                           ELSE AbsIds(Root(r).abs))
               /\ UNCHANGED <<rid, typ>>
          [] OTHER -> FALSE
     /\ (Drifted(r) = 1 => PrintT(<<"DRIFT_AT", l, r.t, r.ev>>))   \* layer-C mismatch: reported, never a verdict

Spec == Init /\ [][Next]_tvars

Cur == Trace[l - 1]

\* C01: content, count, type and root identifier are those of the plain sequence
RefinesSeq == l > 1 =>
  /\ AbsIds(Root(Cur).abs) = seq
  /\ AFlatten(Forest(Cur)) = seq
  /\ Root(Cur).n = Len(seq)
  /\ Root(Cur).rid = rid
  /\ Root(Cur).ti = typ
\* C05
WellFormed == l > 1 => ArrayWellFormed(Forest(Cur))
\* C06 (bookkeeping half): reported sizes are prefix + element sizes, counts and header copies agree
SizesAgree == l > 1 => ArraySizesAgree(Forest(Cur))
\* C09: the slabs in storage are exactly those reachable from the root
NoLeak == l > 1 => Cur.st.stored = Cur.st.reach
\* C03: between commits no register is written or deleted; zero-address slabs are never written;
\* after a successful commit a brand-new storage reconstructs the content from the registers alone
\* C03 / C08 / C15: a slab served from the read cache and not pending in the write set is what the ledger holds under its
\* identifier (its encoding equals the register): an in-place change of a cached slab that never reached the write set would be
\* skipped by the next commit and differ from what any other storage decodes from the ledger
CacheCoherent == l > 1 => Len(Cur.st.stale) = 0
NoLedgerWrite == l > 1 => Cur.st.calls = lcalls
TempNeverWritten == l > 1 => \A i \in 1..Len(Cur.calls) : Cur.calls[i].owner # 0
Durable == (l > 1 /\ Cur.ev = "Commit" /\ Cur.res.class = "ok") =>
  /\ Len(Cur.cold) = 1 /\ Cur.cold[1].kind = "A"
  /\ AbsIds(Cur.cold[1].abs) = seq /\ AFlatten(Cur.cold[1].F[1]) = seq
  /\ Cur.cold[1].n = Len(seq) /\ Cur.cold[1].ti = typ /\ Cur.cold[1].rid = rid
CrashRestores == (l > 1 /\ Cur.ev = "Crash" /\ known) => (Cur.res.class = "ok" /\ AbsIds(Root(Cur).abs) = committed)
\* C07 / C08: the slabs decoded from the registers equal the in-memory slabs that produced them
ColdEqualsWarm == (l > 1 /\ Cur.ev = "Commit" /\ Cur.res.class = "ok") => Cur.cold[1].F = Root(Cur).F
ColdWellFormed == (l > 1 /\ Cur.ev = "Commit" /\ Cur.res.class = "ok") => ArrayWellFormed(Cur.cold[1].F[1])
\* C04: the deterministic commit issues its calls in ascending (owner, index)
CallLess(a, b) == a.owner < b.owner \/ (a.owner = b.owner /\ a.index < b.index)
DetOrder == (l > 1 /\ Cur.ev = "Commit" /\ Cur.mode = "det") =>
  \A i \in 1..(Len(Cur.calls) - 1) : CallLess(Cur.calls[i], Cur.calls[i + 1])
\* C14 (container level): a failed commit reports an external error
FailedCommitIsExternal == (l > 1 /\ Cur.ev = "Commit" /\ Cur.res.class # "ok") => Cur.res.cat = "external"

\* C13: every enumeration flavour yields the sequence; ranges yield the slice or the right error; a partially
\* loaded array yields an in-order subsequence (everything when all slabs are loaded)
RECURSIVE IsSubseq(_, _)
IsSubseq(x, y) == IF x = <<>> THEN TRUE ELSE IF y = <<>> THEN FALSE
                  ELSE IF Head(x) = Head(y) THEN IsSubseq(Tail(x), Tail(y)) ELSE IsSubseq(x, Tail(y))
IterOK == (l > 1 /\ Cur.ev = "AIterProbe") =>
  /\ \A i \in 1..Len(Cur.probe.iters) : Cur.probe.iters[i].class = "ok" /\ Cur.probe.iters[i].ids = seq
  /\ \A i \in 1..Len(Cur.probe.ranges) :
       LET q == Cur.probe.ranges[i]  c == RangeClass(seq, q.s, q.e) IN
       q.class = c /\ (c = "ok" => q.ids = Range(seq, q.s, q.e))
PartialOK == (l > 1 /\ Cur.ev = "APartialProbe") =>
  \A i \in 1..Len(Cur.probe.partial) :
    LET q == Cur.probe.partial[i] IN q.class = "ok" /\ IsSubseq(q.ids, seq) /\ (q.s = q.e => q.ids = seq)
\* C17: bulk build and copy give equal content, a valid structure, a different identity; the source is unaffected
BatchOK == (l > 1 /\ Cur.ev = "ABatch") =>
  /\ Cur.res.class = "ok" /\ Len(Cur.probe.other) = 1
  /\ LET b == Cur.probe.other[1] IN
     /\ AbsIds(b.abs) = seq /\ AFlatten(b.F[1]) = seq /\ b.n = Len(seq)
     /\ ArrayWellFormed(b.F[1]) /\ ArraySizesAgree(b.F[1])
     /\ b.rid # rid /\ b.ti = typ
\* C05 on bulk-built / copied containers: they are containers like any other
OtherWellFormed == (l > 1 /\ Len(Cur.probe.other) = 1) => ArrayWellFormed(Cur.probe.other[1].F[1])
OtherSizesAgree == (l > 1 /\ Len(Cur.probe.other) = 1) => ArraySizesAgree(Cur.probe.other[1].F[1])
Copyable(F) == F.k = "d" /\ \A i \in 1..Len(F.e) : F.e[i].c = "s"
CopyOK == (l > 1 /\ Cur.ev = "ACopy") =>
  /\ Cur.probe.can = Copyable(Forest(Cur))
  /\ (Cur.probe.can => /\ Cur.res.class = "ok" /\ Len(Cur.probe.other) = 1
                        /\ LET b == Cur.probe.other[1] IN
                           /\ AbsIds(b.abs) = seq /\ AFlatten(b.F[1]) = seq
                           /\ ArrayWellFormed(b.F[1]) /\ ArraySizesAgree(b.F[1]) /\ b.rid # rid /\ b.ti = typ
                           /\ ~b.F[1].inl)
  /\ (~Cur.probe.can => Cur.res.class # "ok")
SourceUnaffected == (l > 1 /\ Cur.ev \in {"ABatch", "ACopy", "AOtherDisposed"}) =>
  /\ AbsIds(Root(Cur).abs) = seq /\ AFlatten(Forest(Cur)) = seq
  /\ ArrayWellFormed(Forest(Cur)) /\ ArraySizesAgree(Forest(Cur))
  /\ (Cur.ev = "AOtherDisposed" => Cur.st.stored = Cur.st.reach)
\* C18: a rejected request leaves no trace: content, slabs and write set are those before the request
Rejected(r) == r.res.class \notin {"ok"} /\ r.ev \in {"AInsert", "AAppend", "ASet", "ARemove", "AGet"}
NoTraceOfRejected == (l > 2 /\ Rejected(Cur) /\ Trace[l - 2].t = Cur.t) =>
  /\ Root(Cur).fsum = Root(Trace[l - 2]).fsum
  /\ Cur.st.deltas = Trace[l - 2].st.deltas /\ Cur.st.stored = Trace[l - 2].st.stored /\ Cur.st.calls = Trace[l - 2].st.calls

\* C07: re-encoding the decoded register gives the identical bytes; header flags are truthful
CommitOK(r) == r.ev = "Commit" /\ r.res.class = "ok"
ColdSlabNodes(r) == UNION {SlabNodes(r.cold[i].F[1]) : i \in 1..Len(r.cold)}
ReencodesExactly == (l > 1 /\ CommitOK(Cur)) => \A i \in 1..Len(Cur.regs) : Cur.regs[i].reenc
FlagsTruthful == (l > 1 /\ CommitOK(Cur)) => \A i \in 1..Len(Cur.regs) : FlagsOf(Cur.regs[i], ColdSlabNodes(Cur))
\* C06: the size a slab reports equals the bytes written
EncodedLenRelation == (l > 1 /\ CommitOK(Cur)) => \A i \in 1..Len(Cur.regs) : SizeOf(Cur.regs[i], ColdSlabNodes(Cur))
\* C09 on the ledger: after a successful commit the registers are exactly the slabs reachable from the roots held by the caller
\* (nothing the history released is left behind in the ledger, nothing reachable is missing from it)
\* C09 on the registers alone: what a brand-new storage sees after the commit - every reference resolves, every register decodes,
\* and the registers are exactly the slabs reachable from the roots
ColdResolves == (l > 1 /\ CommitOK(Cur)) =>
  /\ Cur.coldbad = 0
  /\ {Cur.coldreach[i] : i \in 1..Len(Cur.coldreach)} = {Cur.regs[i].id : i \in 1..Len(Cur.regs)}
NoLeakInLedger == (l > 1 /\ CommitOK(Cur)) => {Cur.regs[i].id : i \in 1..Len(Cur.regs)} = {Cur.st.reach[i] : i \in 1..Len(Cur.st.reach)}

TraceAccepted ==
  LET d == TLCGet("stats").diameter IN
  IF d - 1 = Len(Trace) THEN TRUE
  ELSE Print(<<"REJECTED_AT", d, Trace[d].t, Trace[d].ev>>, FALSE)
=============================================================================
