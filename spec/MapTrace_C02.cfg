SPECIFICATION Spec
CONSTANTS
  StrictA = TRUE
  CheckCat = FALSE
  CheckOrder = FALSE
INVARIANTS RefinesDict
POSTCONDITION TraceAccepted
CHECK_DEADLOCK FALSE
