------------------------------ MODULE ConcTrace ------------------------------
(* C16 / C04: every execution of a parallel commit (gated into a TLC-emitted arrival order, or free-running with      *)
(* jitter and 2..64 workers) is compared with the same work done with one worker: the call returns, reports the same  *)
(* error, and - for the deterministic commit - leaves the same registers, cache keys and write-set keys; after         *)
(* retrying to success the registers are byte-identical for both commit kinds.                                         *)
EXTENDS Integers, Sequences, Json, TLC
Trace == ndJsonDeserialize("trace.ndjson")
VARIABLE l
Init == l = 1
Next == l <= Len(Trace) /\ l' = l + 1
Spec == Init /\ [][Next]_l
Cur == Trace[l - 1]
Returns == l > 1 => Cur.run.returned /\ Cur.twin.returned
SameError == (l > 1 /\ Cur.run.returned) => Cur.run.class = Cur.twin.class /\ Cur.run.cat = Cur.twin.cat
DetSameState == (l > 1 /\ Cur.run.returned /\ Cur.case.mode = "det") =>
  Cur.run.regs = Cur.twin.regs /\ Cur.run.cache = Cur.twin.cache /\ Cur.run.deltas = Cur.twin.deltas
RelaxedSameOnSuccess == (l > 1 /\ Cur.run.returned /\ Cur.case.mode = "relaxed" /\ Cur.run.class = "ok") =>
  Cur.run.regs = Cur.twin.regs /\ Cur.run.cache = Cur.twin.cache /\ Cur.run.deltas = Cur.twin.deltas
Converges == (l > 1 /\ Cur.run.returned) => Cur.run.final = Cur.twin.final
TraceAccepted ==
  LET d == TLCGet("stats").diameter IN
  IF d - 1 = Len(Trace) THEN TRUE
  ELSE Print(<<"REJECTED_AT", d, Trace[d].t, Trace[d].ev>>, FALSE)
=============================================================================
