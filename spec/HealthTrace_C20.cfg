SPECIFICATION Spec
INVARIANTS HealthVerdict ChildReferences
POSTCONDITION TraceAccepted
CHECK_DEADLOCK FALSE
