SPECIFICATION Spec
CONSTANTS
  T = 256
  Keys = {1, 2, 3, 4, 5, 6, 7, 8}
  KSzF = 5
  LimitF = 255
  VSizes = {12, 101}
  MaxKeys = 7
  DigMode = "mixed"
  EmitEdges = FALSE
  EmitOneIn = 1
  WithReads = TRUE
VIEW View
INVARIANTS WellFormed Refines Routing
PROPERTIES StepOK
CHECK_DEADLOCK FALSE
