SPECIFICATION Spec
CONSTANTS
  StrictA = FALSE
  CheckCat = FALSE
  CheckOrder = FALSE
INVARIANTS NoLedgerWrite TempNeverWritten Durable CrashRestores
POSTCONDITION TraceAccepted
CHECK_DEADLOCK FALSE
