SPECIFICATION Spec
CONSTANTS
  StrictA = FALSE
  CheckCat = FALSE
  CheckOrder = FALSE
INVARIANTS NoLedgerWrite TempNeverWritten Durable CrashRestores CacheCoherent
POSTCONDITION TraceAccepted
CHECK_DEADLOCK FALSE
