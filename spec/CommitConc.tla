----------------------------- MODULE CommitConc -----------------------------
(***************************************************************************)
(* C16 / C04: the goroutine skeleton of FastCommit,                        *)
(* NondeterministicFastCommit and BatchPreload (storage.go): a main        *)
(* goroutine, W workers, a closed job queue, a result queue of capacity    *)
(* Cap (= number of jobs in the code), a done channel closed on the first  *)
(* error, a wait group awaited (deferred) before the result queue is       *)
(* closed.  Jobs are encoded / decoded by the workers; every write to the  *)
(* storage's maps and to the ledger happens on the main goroutine.         *)
(* Mode "det":   collect all results, then apply in key order.             *)
(* Mode "relaxed": apply each result as it arrives.                        *)
(* EncErr: the job whose encoding fails (0 = none); FailCall: the ledger   *)
(* call that fails (0 = none).                                             *)
(***************************************************************************)
EXTENDS Integers, Sequences, FiniteSets, Json, TLC

CONSTANTS W, NJobs, Cap, Mode, EncErr, FailCall, EmitSchedules

Jobs == 1..NJobs
Workers == 1..W

(* --fair algorithm commit
variables jobs = [i \in 1..NJobs |-> i],     \* closed channel pre-filled in key order
          results = <<>>,                     \* buffered channel of capacity Cap
          resultsClosed = FALSE,
          done = FALSE,                       \* done channel closed
          running = W,                        \* wait group counter
          received = <<>>,                    \* arrival order seen by main
          written = <<>>,                     \* ledger calls that succeeded, in order
          calls = 0,
          err = "none",
          returned = FALSE,
          sendOnClosed = FALSE,
          blockedSend = FALSE;

define
  Ready(seq) == IF Mode = "det" THEN Len(received) = NJobs ELSE TRUE
end define;

process main = 0
variables n = 0, k = 1, r = 0;
begin
Collect:
  while n < NJobs /\ err = "none" do
    await Len(results) > 0;
    r := Head(results); results := Tail(results);
    received := Append(received, r);
    n := n + 1;
    if r = EncErr then
      err := "encoding"; done := TRUE;
    elsif Mode = "relaxed" then
      calls := calls + 1;
      if calls = FailCall then
        err := "external"; done := TRUE;
      else
        written := Append(written, r);
      end if;
    end if;
  end while;
Apply:
  if Mode = "det" /\ err = "none" then
    ApplyLoop:
    while k <= NJobs /\ err = "none" do
      calls := calls + 1;
      if calls = FailCall then
        err := "external";
      else
        written := Append(written, k);
      end if;
      k := k + 1;
    end while;
  end if;
Deferred:     \* defer: wg.Wait(); close(results)
  await running = 0;
  resultsClosed := TRUE;
  returned := TRUE;
end process;

process worker \in Workers
variables job = 0;
begin
Take:
  while Len(jobs) > 0 do
    job := Head(jobs); jobs := Tail(jobs);
    CheckDone:
    if done then
      goto Exit;
    end if;
    Encode:      \* EncodeSlab / DecodeSlab: touches only the job's own slab
      skip;
    Send:
      if resultsClosed then
        sendOnClosed := TRUE;
      end if;
      if Len(results) >= Cap then blockedSend := TRUE; end if;
      await Len(results) < Cap;
      results := Append(results, job);
  end while;
Exit:
  running := running - 1;
end process;
end algorithm; *)
\* BEGIN TRANSLATION
VARIABLES pc, jobs, results, resultsClosed, done, running, received, written, 
          calls, err, returned, sendOnClosed, blockedSend

(* define statement *)
Ready(seq) == IF Mode = "det" THEN Len(received) = NJobs ELSE TRUE

VARIABLES n, k, r, job

vars == << pc, jobs, results, resultsClosed, done, running, received, written, 
           calls, err, returned, sendOnClosed, blockedSend, n, k, r, job >>

ProcSet == {0} \cup (Workers)

Init == (* Global variables *)
        /\ jobs = [i \in 1..NJobs |-> i]
        /\ results = <<>>
        /\ resultsClosed = FALSE
        /\ done = FALSE
        /\ running = W
        /\ received = <<>>
        /\ written = <<>>
        /\ calls = 0
        /\ err = "none"
        /\ returned = FALSE
        /\ sendOnClosed = FALSE
        /\ blockedSend = FALSE
        (* Process main *)
        /\ n = 0
        /\ k = 1
        /\ r = 0
        (* Process worker *)
        /\ job = [self \in Workers |-> 0]
        /\ pc = [self \in ProcSet |-> CASE self = 0 -> "Collect"
                                        [] self \in Workers -> "Take"]

Collect == /\ pc[0] = "Collect"
           /\ IF n < NJobs /\ err = "none"
                 THEN /\ Len(results) > 0
                      /\ r' = Head(results)
                      /\ results' = Tail(results)
                      /\ received' = Append(received, r')
                      /\ n' = n + 1
                      /\ IF r' = EncErr
                            THEN /\ err' = "encoding"
                                 /\ done' = TRUE
                                 /\ UNCHANGED << written, calls >>
                            ELSE /\ IF Mode = "relaxed"
                                       THEN /\ calls' = calls + 1
                                            /\ IF calls' = FailCall
                                                  THEN /\ err' = "external"
                                                       /\ done' = TRUE
                                                       /\ UNCHANGED written
                                                  ELSE /\ written' = Append(written, r')
                                                       /\ UNCHANGED << done, 
                                                                       err >>
                                       ELSE /\ TRUE
                                            /\ UNCHANGED << done, written, 
                                                            calls, err >>
                      /\ pc' = [pc EXCEPT ![0] = "Collect"]
                 ELSE /\ pc' = [pc EXCEPT ![0] = "Apply"]
                      /\ UNCHANGED << results, done, received, written, calls, 
                                      err, n, r >>
           /\ UNCHANGED << jobs, resultsClosed, running, returned, 
                           sendOnClosed, blockedSend, k, job >>

Apply == /\ pc[0] = "Apply"
         /\ IF Mode = "det" /\ err = "none"
               THEN /\ pc' = [pc EXCEPT ![0] = "ApplyLoop"]
               ELSE /\ pc' = [pc EXCEPT ![0] = "Deferred"]
         /\ UNCHANGED << jobs, results, resultsClosed, done, running, received, 
                         written, calls, err, returned, sendOnClosed, 
                         blockedSend, n, k, r, job >>

ApplyLoop == /\ pc[0] = "ApplyLoop"
             /\ IF k <= NJobs /\ err = "none"
                   THEN /\ calls' = calls + 1
                        /\ IF calls' = FailCall
                              THEN /\ err' = "external"
                                   /\ UNCHANGED written
                              ELSE /\ written' = Append(written, k)
                                   /\ err' = err
                        /\ k' = k + 1
                        /\ pc' = [pc EXCEPT ![0] = "ApplyLoop"]
                   ELSE /\ pc' = [pc EXCEPT ![0] = "Deferred"]
                        /\ UNCHANGED << written, calls, err, k >>
             /\ UNCHANGED << jobs, results, resultsClosed, done, running, 
                             received, returned, sendOnClosed, blockedSend, n, 
                             r, job >>

Deferred == /\ pc[0] = "Deferred"
            /\ running = 0
            /\ resultsClosed' = TRUE
            /\ returned' = TRUE
            /\ pc' = [pc EXCEPT ![0] = "Done"]
            /\ UNCHANGED << jobs, results, done, running, received, written, 
                            calls, err, sendOnClosed, blockedSend, n, k, r, 
                            job >>

main == Collect \/ Apply \/ ApplyLoop \/ Deferred

Take(self) == /\ pc[self] = "Take"
              /\ IF Len(jobs) > 0
                    THEN /\ job' = [job EXCEPT ![self] = Head(jobs)]
                         /\ jobs' = Tail(jobs)
                         /\ pc' = [pc EXCEPT ![self] = "CheckDone"]
                    ELSE /\ pc' = [pc EXCEPT ![self] = "Exit"]
                         /\ UNCHANGED << jobs, job >>
              /\ UNCHANGED << results, resultsClosed, done, running, received, 
                              written, calls, err, returned, sendOnClosed, 
                              blockedSend, n, k, r >>

CheckDone(self) == /\ pc[self] = "CheckDone"
                   /\ IF done
                         THEN /\ pc' = [pc EXCEPT ![self] = "Exit"]
                         ELSE /\ pc' = [pc EXCEPT ![self] = "Encode"]
                   /\ UNCHANGED << jobs, results, resultsClosed, done, running, 
                                   received, written, calls, err, returned, 
                                   sendOnClosed, blockedSend, n, k, r, job >>

Encode(self) == /\ pc[self] = "Encode"
                /\ TRUE
                /\ pc' = [pc EXCEPT ![self] = "Send"]
                /\ UNCHANGED << jobs, results, resultsClosed, done, running, 
                                received, written, calls, err, returned, 
                                sendOnClosed, blockedSend, n, k, r, job >>

Send(self) == /\ pc[self] = "Send"
              /\ IF resultsClosed
                    THEN /\ sendOnClosed' = TRUE
                    ELSE /\ TRUE
                         /\ UNCHANGED sendOnClosed
              /\ IF Len(results) >= Cap
                    THEN /\ blockedSend' = TRUE
                    ELSE /\ TRUE
                         /\ UNCHANGED blockedSend
              /\ Len(results) < Cap
              /\ results' = Append(results, job[self])
              /\ pc' = [pc EXCEPT ![self] = "Take"]
              /\ UNCHANGED << jobs, resultsClosed, done, running, received, 
                              written, calls, err, returned, n, k, r, job >>

Exit(self) == /\ pc[self] = "Exit"
              /\ running' = running - 1
              /\ pc' = [pc EXCEPT ![self] = "Done"]
              /\ UNCHANGED << jobs, results, resultsClosed, done, received, 
                              written, calls, err, returned, sendOnClosed, 
                              blockedSend, n, k, r, job >>

worker(self) == Take(self) \/ CheckDone(self) \/ Encode(self) \/ Send(self)
                   \/ Exit(self)

(* Allow infinite stuttering to prevent deadlock on termination. *)
Terminating == /\ \A self \in ProcSet: pc[self] = "Done"
               /\ UNCHANGED vars

Next == main
           \/ (\E self \in Workers: worker(self))
           \/ Terminating

Spec == /\ Init /\ [][Next]_vars
        /\ WF_vars(Next)

Termination == <>(\A self \in ProcSet: pc[self] = "Done")

\* END TRANSLATION

\* ---- properties
NoSendOnClosed == ~sendOnClosed
ResultsNeverBlock == ~blockedSend                 \* the queue is large enough for every result
Returns == <>returned                             \* the call returns (under fairness): no goroutine is left blocked
AllWorkersExit == <>(running = 0)
\* schedule independence: the outcome is a function of the inputs, not of the interleaving
ExpectedErr == IF EncErr # 0 THEN (IF Mode = "det" THEN "encoding" ELSE err)   \* relaxed: an earlier ledger fault may win
               ELSE IF FailCall # 0 /\ FailCall <= NJobs THEN "external" ELSE "none"
SeqEqual == returned =>
  /\ (Mode = "det" => err = ExpectedErr)
  /\ (Mode = "det" /\ err = "none" => written = [i \in 1..NJobs |-> i])
  /\ (Mode = "det" /\ err = "external" => written = [i \in 1..(FailCall - 1) |-> i])
  /\ (Mode = "det" /\ err = "encoding" => written = <<>>)
  /\ (err = "none" => {written[i] : i \in 1..Len(written)} = Jobs /\ Len(written) = NJobs)
  /\ (Mode = "relaxed" /\ EncErr = 0 /\ FailCall # 0 /\ FailCall <= NJobs => err = "external" /\ Len(written) = FailCall - 1)
EmitAtReturn == (EmitSchedules /\ returned) =>
  PrintT(ToJson([w |-> W, n |-> NJobs, mode |-> Mode, encerr |-> EncErr, failcall |-> FailCall, order |-> received, err |-> err, written |-> written]))
=============================================================================
