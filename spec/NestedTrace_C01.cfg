SPECIFICATION Spec
CONSTANTS
  StrictA = TRUE
INVARIANTS ReadsThrough
POSTCONDITION TraceAccepted
CHECK_DEADLOCK FALSE
