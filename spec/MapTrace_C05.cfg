SPECIFICATION Spec
CONSTANTS
  StrictA = FALSE
  CheckCat = FALSE
  CheckOrder = FALSE
INVARIANTS WellFormed
POSTCONDITION TraceAccepted
CHECK_DEADLOCK FALSE
