SPECIFICATION Spec
CONSTANTS
  T <- TraceT
  StrictA = TRUE
  CheckCat = FALSE
INVARIANTS RefinesSeq
POSTCONDITION TraceAccepted
CHECK_DEADLOCK FALSE
