SPECIFICATION Spec
CONSTANTS
  T <- TraceT
  StrictA = FALSE
  CheckCat = FALSE
INVARIANTS NoLedgerWrite TempNeverWritten Durable CrashRestores CacheCoherent
POSTCONDITION TraceAccepted
CHECK_DEADLOCK FALSE
