SPECIFICATION Spec
CONSTANTS
  T <- TraceT
  StrictA = FALSE
  CheckCat = FALSE
INVARIANTS NoLedgerWrite TempNeverWritten Durable CrashRestores
POSTCONDITION TraceAccepted
CHECK_DEADLOCK FALSE
