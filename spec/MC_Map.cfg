SPECIFICATION Spec
CONSTANTS
  Keys = {1, 2, 3}
  DigSet = {0, 1}
  KSz = 3
  VSizes = {12, 40}
  Limit = 255
  MaxInlineElem = 107
  MaxOps = 1000
  EmitEdges = FALSE
  EmitOneIn = 1
  WithReads = TRUE
  DigMode = "all"
  GrowUntil = 0
  ShrinkFrom = 1000000
  EmitDepth = 0
VIEW View
INVARIANTS Lookup Order WF
PROPERTIES StepOK
CHECK_DEADLOCK FALSE
