SPECIFICATION Spec
CONSTANTS
  CheckResults = TRUE
  CheckRegs = TRUE
INVARIANTS NoHarnessErrors SameResults SameRegisters
POSTCONDITION TraceAccepted
CHECK_DEADLOCK FALSE
