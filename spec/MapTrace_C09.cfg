SPECIFICATION Spec
CONSTANTS
  StrictA = FALSE
  CheckCat = FALSE
  CheckOrder = FALSE
INVARIANTS NoLeak NoLeakInLedger
POSTCONDITION TraceAccepted
CHECK_DEADLOCK FALSE
