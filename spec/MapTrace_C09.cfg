SPECIFICATION Spec
CONSTANTS
  StrictA = FALSE
  CheckCat = FALSE
  CheckOrder = FALSE
INVARIANTS NoLeak NoLeakInLedger ColdResolves
POSTCONDITION TraceAccepted
CHECK_DEADLOCK FALSE
