SPECIFICATION Spec
CONSTANTS
  StrictA = FALSE
  CheckCat = FALSE
  CheckOrder = FALSE
INVARIANTS NoLeak
POSTCONDITION TraceAccepted
CHECK_DEADLOCK FALSE
