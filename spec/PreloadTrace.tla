----------------------------- MODULE PreloadTrace -----------------------------
(* C16: every execution of the real BatchPreload (parallel path; arrival order of decoded slabs forced into a TLC-emitted  *)
(* schedule of PreloadConc, or free-running with jitter and 2..64 workers) must satisfy the Outcome predicate of the      *)
(* model and agree with the same call made with one worker: it returns, reports the same error, caches every slab on      *)
(* success, nothing when a ledger read fails, and never anything wrong.                                                   *)
EXTENDS Integers, Sequences, FiniteSets, Json, TLC
Trace == ndJsonDeserialize("trace.ndjson")
VARIABLE l
Init == l = 1
Next == l <= Len(Trace) /\ l' = l + 1
Spec == Init /\ [][Next]_l
Cur == Trace[l - 1]
SetOf(s) == {s[i] : i \in 1..Len(s)}
Returns == l > 1 => Cur.run.returned /\ Cur.twin.returned
SameError == (l > 1 /\ Cur.run.returned) => Cur.run.class = Cur.twin.class /\ Cur.run.cat = Cur.twin.cat
\* the model's Outcome, evaluated on the observed execution
Outcome == (l > 1 /\ Cur.run.returned) =>
  LET c == Cur.case  o == Cur.run IN
  /\ o.cacheok /\ o.extra = 0
  /\ o.prekept = c.pre            \* preloading only ADDS to the read cache (model: cache grows monotonically from PreCached)
  /\ (c.readfail = 0 /\ c.decerr = 0) => (o.class = "ok" /\ SetOf(o.cache) = 1..c.n)
  /\ (c.readfail > 0) => (o.class = "injected" /\ o.cat = "external" /\ o.cache = <<>>)
  /\ (c.readfail = 0 /\ c.decerr > 0) => (o.class # "ok" /\ SetOf(o.cache) \subseteq ((1..c.n) \ {c.decerr}))
TraceAccepted ==
  LET d == TLCGet("stats").diameter IN
  IF d - 1 = Len(Trace) THEN TRUE
  ELSE Print(<<"REJECTED_AT", d, Trace[d].t, Trace[d].ev>>, FALSE)
=============================================================================
