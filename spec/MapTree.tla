------------------------------ MODULE MapTree ------------------------------
(***************************************************************************)
(* Layer C (element level): the algorithm of the ordered map inside one    *)
(* slab, transcribed from map_elements_hashkey.go, map_elements_nokey.go   *)
(* and map_element.go: sorted unique digests per level, single element ->  *)
(* inline collision group (re-hashing the resident key one level deeper)   *)
(* -> external group when a first-level group outgrows the element limit   *)
(* -> collapse back to a single element on removal; last level is an       *)
(* insertion-ordered list; collision limit on insert.  Values are          *)
(* represented by their sizes.  Never produces verdicts on the code.       *)
(***************************************************************************)
EXTENDS Integers, Sequences, FiniteSets, TLC

CONSTANTS Keys,        \* set of keys (ints)
          DigSet,      \* set of digest values per level, e.g. {0,1}
          KSz,         \* key size
          VSizes,      \* value sizes
          Limit,       \* maxCollisionLimitPerDigest
          MaxInlineElem \* maxInlineMapElementSize

LevelsC == 4
NoVal == 0

VARIABLES dig,     \* digest assignment [Keys -> [1..Levels -> DigSet]], chosen initially
          root     \* elements at level 0

Single(k, v) == [t |-> "s", key |-> k, v |-> v]
HElems(lvl, hk, el) == [t |-> "h", lvl |-> lvl, hk |-> hk, el |-> el]
LElems(lvl, el) == [t |-> "l", lvl |-> lvl, el |-> el]
IGroup(els) == [t |-> "g", els |-> els]
XGroup(els) == [t |-> "x", els |-> els]

RECURSIVE ElemSize(_), ElsSize(_), SumElems(_, _)
SumElems(el, extra) == IF el = <<>> THEN 0 ELSE extra + ElemSize(Head(el)) + SumElems(Tail(el), extra)
\* a value that does not fit next to its key is moved to its own slab and referenced (19 bytes)
StoredV(v) == IF v > MaxInlineElem - KSz - 1 THEN 19 ELSE v
ElemSize(e) == CASE e.t = "s" -> 1 + KSz + StoredV(e.v)
                 [] e.t = "g" -> 2 + ElsSize(e.els)
                 [] e.t = "x" -> 21
ElsSize(els) == IF els.t = "h" THEN 8 + SumElems(els.el, 8) ELSE 6 + SumElems(els.el, 0)

D(k, lvl) == dig[k][lvl + 1]      \* lvl is 0-based

SubSeqSafe(s, a, b) == IF a > b THEN <<>> ELSE SubSeq(s, a, b)
InsertAt(s, i, x) == SubSeqSafe(s, 1, i - 1) \o <<x>> \o SubSeqSafe(s, i, Len(s))   \* becomes position i (1-based)
RemoveAt(s, i) == SubSeqSafe(s, 1, i - 1) \o SubSeqSafe(s, i + 1, Len(s))
SetAt(s, i, x) == [s EXCEPT ![i] = x]

IndexOf(hk, d) == IF \E i \in 1..Len(hk) : hk[i] = d THEN CHOOSE i \in 1..Len(hk) : hk[i] = d ELSE 0
\* first position whose digest is > d (insert position), Len+1 if none
InsPos(hk, d) == IF \E i \in 1..Len(hk) : hk[i] > d THEN CHOOSE i \in 1..Len(hk) : hk[i] > d /\ \A j \in 1..(i-1) : hk[j] < d ELSE Len(hk) + 1

RECURSIVE HasKeyElem(_, _), HasKeyEls(_, _)
HasKeyElem(e, k) == IF e.t = "s" THEN e.key = k ELSE HasKeyEls(e.els, k)
HasKeyEls(els, k) == \E i \in 1..Len(els.el) : HasKeyElem(els.el[i], k)

ElemCount(e) == IF e.t = "s" THEN 1 ELSE Len(e.els.el)

\* ---------- Set ----------
\* results: [e |-> new element / els, old |-> previous value, err |-> BOOLEAN]
RECURSIVE ElemSet(_, _, _, _), ElsSet(_, _, _)

ElsSet(els, k, v) ==
  IF els.t = "l"
  THEN IF \E i \in 1..Len(els.el) : els.el[i].key = k
       THEN LET i == CHOOSE i \in 1..Len(els.el) : els.el[i].key = k
            IN [e |-> LElems(els.lvl, SetAt(els.el, i, Single(k, v))), old |-> els.el[i].v, err |-> FALSE]
       ELSE [e |-> LElems(els.lvl, Append(els.el, Single(k, v))), old |-> NoVal, err |-> FALSE]
  ELSE LET d == D(k, els.lvl)
           i == IndexOf(els.hk, d)
       IN IF i = 0
          THEN LET p == InsPos(els.hk, d)
               IN [e |-> HElems(els.lvl, InsertAt(els.hk, p, d), InsertAt(els.el, p, Single(k, v))), old |-> NoVal, err |-> FALSE]
          ELSE LET elem == els.el[i]
               IN IF els.lvl = 0 /\ ElemCount(elem) - 1 >= Limit /\ ~HasKeyElem(elem, k)
                  THEN [e |-> els, old |-> NoVal, err |-> TRUE]
                  ELSE LET r == ElemSet(elem, els.lvl, k, v)
                       IN [e |-> HElems(els.lvl, els.hk, SetAt(els.el, i, r.e)), old |-> r.old, err |-> r.err]

GroupSet(g, lvl, k, v) ==      \* lvl = level of the element holding the group
  LET r == ElsSet(g.els, k, v)
      ng == [g EXCEPT !.els = r.e]
  IN IF g.t = "g" /\ lvl + 1 = 1 /\ ElemSize(ng) > MaxInlineElem
     THEN [e |-> XGroup(r.e), old |-> r.old, err |-> r.err]
     ELSE [e |-> ng, old |-> r.old, err |-> r.err]

ElemSet(e, lvl, k, v) ==
  IF e.t = "s"
  THEN IF e.key = k THEN [e |-> Single(k, v), old |-> e.v, err |-> FALSE]
       ELSE IF lvl + 1 = LevelsC
            THEN GroupSet(IGroup(LElems(lvl + 1, <<e>>)), lvl, k, v)
            ELSE GroupSet(IGroup(HElems(lvl + 1, <<D(e.key, lvl + 1)>>, <<e>>)), lvl, k, v)
  ELSE GroupSet(e, lvl, k, v)

\* ---------- Remove ----------
\* results: [e |-> new els / element or "nil", val |-> removed value, found |-> BOOLEAN]
NilElem == [t |-> "nil"]
RECURSIVE ElemRemove(_, _, _), ElsRemove(_, _)

ElsRemove(els, k) ==
  IF els.t = "l"
  THEN IF \E i \in 1..Len(els.el) : els.el[i].key = k
       THEN LET i == CHOOSE i \in 1..Len(els.el) : els.el[i].key = k
            IN [e |-> LElems(els.lvl, RemoveAt(els.el, i)), val |-> els.el[i].v, found |-> TRUE]
       ELSE [e |-> els, val |-> NoVal, found |-> FALSE]
  ELSE LET d == D(k, els.lvl)
           i == IndexOf(els.hk, d)
       IN IF i = 0 THEN [e |-> els, val |-> NoVal, found |-> FALSE]
          ELSE LET r == ElemRemove(els.el[i], els.lvl, k)
               IN IF ~r.found THEN [e |-> els, val |-> NoVal, found |-> FALSE]
                  ELSE IF r.e = NilElem
                       THEN [e |-> HElems(els.lvl, RemoveAt(els.hk, i), RemoveAt(els.el, i)), val |-> r.val, found |-> TRUE]
                       ELSE [e |-> HElems(els.lvl, els.hk, SetAt(els.el, i, r.e)), val |-> r.val, found |-> TRUE]

ElemRemove(e, lvl, k) ==
  IF e.t = "s"
  THEN IF e.key = k THEN [e |-> NilElem, val |-> e.v, found |-> TRUE] ELSE [e |-> e, val |-> NoVal, found |-> FALSE]
  ELSE LET r == ElsRemove(e.els, k)
       IN IF ~r.found THEN [e |-> e, val |-> NoVal, found |-> FALSE]
          ELSE IF Len(r.e.el) = 1 /\ r.e.el[1].t = "s"
               THEN [e |-> r.e.el[1], val |-> r.val, found |-> TRUE]      \* collapse (external slab released)
               ELSE [e |-> [e EXCEPT !.els = r.e], val |-> r.val, found |-> TRUE]

\* ---------- Get ----------
RECURSIVE ElsGet(_, _)
ElsGet(els, k) ==
  IF els.t = "l"
  THEN IF \E i \in 1..Len(els.el) : els.el[i].key = k
       THEN (LET i == CHOOSE i \in 1..Len(els.el) : els.el[i].key = k IN els.el[i].v) ELSE NoVal
  ELSE LET i == IndexOf(els.hk, D(k, els.lvl))
       IN IF i = 0 THEN NoVal
          ELSE IF els.el[i].t = "s" THEN (IF els.el[i].key = k THEN els.el[i].v ELSE NoVal)
          ELSE ElsGet(els.el[i].els, k)

\* ---------- iteration order ----------
RECURSIVE ElsKeys(_), ElemKeys(_), SeqKeys(_)
SeqKeys(el) == IF el = <<>> THEN <<>> ELSE ElemKeys(Head(el)) \o SeqKeys(Tail(el))
ElemKeys(e) == IF e.t = "s" THEN <<e.key>> ELSE ElsKeys(e.els)
ElsKeys(els) == SeqKeys(els.el)

VecLeq(x, y) == \/ x = y
                \/ \E l \in 1..LevelsC : (\A m \in 1..(l-1) : x[m] = y[m]) /\ x[l] < y[l]

\* ---------- structure (design-level statement of C05 / C12 for one slab) ----------
RECURSIVE ElsWF(_, _)
ElsWF(els, top) ==
  IF els.t = "l" THEN \A i \in 1..Len(els.el) : els.el[i].t = "s"
  ELSE /\ Len(els.hk) = Len(els.el)
       /\ \A i \in 1..(Len(els.hk) - 1) : els.hk[i] < els.hk[i + 1]
       /\ \A i \in 1..Len(els.el) :
            LET e == els.el[i] IN
            /\ (els.lvl = 0 => ElemSize(e) <= MaxInlineElem)
            /\ (e.t # "s" => /\ ElsWF(e.els, FALSE)
                             /\ e.els.lvl = els.lvl + 1
                             /\ ~(Len(e.els.el) = 1 /\ e.els.el[1].t = "s")
                             /\ (e.t = "x" => els.lvl = 0))
=============================================================================
