SPECIFICATION Spec
CONSTANTS
  T = 256
  Keys = {1, 2, 3, 4, 5, 6, 7, 8}
  KSz = 5
  VSizes = {12, 60, 101, 140}
  MaxKeys = 7
  EmitEdges = FALSE
  EmitOneIn = 1
  EmitExact = FALSE
  WithReads = TRUE
  AppendOnly = FALSE
VIEW View
INVARIANTS WellFormed Refines LookupsAgree Routing
CHECK_DEADLOCK FALSE
