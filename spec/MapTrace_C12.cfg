SPECIFICATION Spec
CONSTANTS
  StrictA = TRUE
  CheckCat = FALSE
  CheckOrder = FALSE
INVARIANTS RefinesDict WellFormed
POSTCONDITION TraceAccepted
CHECK_DEADLOCK FALSE
