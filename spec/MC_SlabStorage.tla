------------------------- MODULE MC_SlabStorage -------------------------
(* Bounded configuration of SlabStorage with an API-level history variable.   *)
(* Every explored transition that completes an API call prints the history    *)
(* that reaches it (one JSON line), which the harness replays into the real   *)
(* PersistentSlabStorage.                                                     *)
EXTENDS SlabStorage, Json

CONSTANTS NIds, EmitEdges, EmitOneIn
VARIABLE hist

MCIds == 1..NIds
\* identifiers: the last one is owned by the temporary address; the first two share owner 1
MCOwner == [i \in MCIds |-> IF i = NIds THEN 0 ELSE IF i <= 2 THEN 1 ELSE 2]
MCIndex == [i \in MCIds |-> IF i = 2 THEN 2 ELSE 1]
MCSizeOf(v) == IF v > 0 THEN 10 + v ELSE 0

Op(o, i, v, c, S, m) == [op |-> o, id |-> i, v |-> v, c |-> c, s |-> S, mode |-> m, fail |-> 0]
\* EmitOneIn > 1: print only a random sample of the explored transitions (the value of the conjunct is TRUE either way)
Emit(h) == IF EmitEdges /\ (EmitOneIn <= 1 \/ RandomElement(1..EmitOneIn) = 1) THEN PrintT(ToJson(h)) ELSE TRUE
Step(o) == hist' = Append(hist, o) /\ Emit(hist')
SetSeq(S) == LET RECURSIVE F(_) 
                 F(T) == IF T = {} THEN <<>> ELSE LET x == CHOOSE y \in T : \A z \in T : y <= z IN <<x>> \o F(T \ {x})
             IN F(S)

MCInit == Init /\ hist = <<>>

MCNext ==
  \/ \E i \in Ids, v \in Versions : Store(i, v) /\ Step(Op("store", i, v, 0, <<>>, ""))
  \/ \E i \in Ids : Remove(i) /\ Step(Op("remove", i, 0, 0, <<>>, ""))
  \/ \E i \in Ids : Retrieve(i) /\ Step(Op("retrieve", i, 0, 0, <<>>, ""))
  \/ \E i \in Ids : RetrieveFail(i) /\ Step(Op("retrievefail", i, 0, 0, <<>>, ""))
  \/ \E i \in Ids : RetrieveIfLoaded(i) /\ Step(Op("ifloaded", i, 0, 0, <<>>, ""))
  \/ \E i \in Ids, c \in BOOLEAN : RetrieveIgnoringDeltas(i, c) /\ Step(Op("ignoring", i, 0, IF c THEN 1 ELSE 0, <<>>, ""))
  \/ StoreUndefined /\ Step(Op("storeundef", 0, 0, 0, <<>>, ""))
  \/ RemoveUndefined /\ Step(Op("removeundef", 0, 0, 0, <<>>, ""))
  \/ DropDeltas /\ Step(Op("dropdeltas", 0, 0, 0, <<>>, ""))
  \/ DropCache /\ Step(Op("dropcache", 0, 0, 0, <<>>, ""))
  \/ Recreate /\ Step(Op("recreate", 0, 0, 0, <<>>, ""))
  \/ \E S \in SUBSET Ids : BatchPreload(S) /\ Step(Op("preload", 0, 0, 0, SetSeq(S), ""))
  \/ Observe /\ Step(Op("observe", 0, 0, 0, <<>>, ""))
  \/ \E o \in {Owner[i] : i \in Ids} : ObserveOwner(o) /\ Step(Op("unsaved", o, 0, 0, <<>>, ""))
  \/ \E m \in {"det", "nondet"} : CommitBegin(m) /\ hist' = Append(hist, Op("commit", 0, 0, 0, <<>>, m))
  \/ \E i \in Ids : CommitCallOK(i) /\ UNCHANGED hist
  \/ \E i \in Ids : CommitCallFail(i) /\ hist' = [hist EXCEPT ![Len(hist)].fail = Len(calls) + 1] /\ Emit(hist')
  \/ CommitEnd /\ UNCHANGED hist /\ Emit(hist)

MCSpec == MCInit /\ [][MCNext]_<<vars, hist>>
=============================================================================
