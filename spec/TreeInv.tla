------------------------------ MODULE TreeInv ------------------------------
(***************************************************************************)
(* Layer B: well-formedness, size bookkeeping and link predicates over ONE *)
(* observed slab forest, as projected by the harness from the real slabs   *)
(* (or derived by layer C from a model tree).  These are the predicates    *)
(* of C05 / C06 / C09 / C10 written once.                                  *)
(*                                                                         *)
(* array node:  [k "d"|"m", id, sz, cnt, nxt, inl, root, e, h, c]          *)
(*   e: <<[c class, w wrapper levels, sz stored size, v id, vsz, ch <<child>>]>>   *)
(*   h: <<[id, sz, cnt, sum]>>  the parent's copies of the child headers   *)
(* map node:    [k "md"|"mm", id, sz, fk, nxt, inl, root, any, cg, cnt, els, h, c] *)
(***************************************************************************)
EXTENDS Thresholds, Sequences, FiniteSets

CONSTANT T
LOCAL MinT == MinOf(T)
LOCAL MaxT == MaxOf(T)

RECURSIVE SumElemSz(_)
SumElemSz(s) == IF s = <<>> THEN 0 ELSE Head(s).sz + SumElemSz(Tail(s))

IsArr(n) == n.k \in {"d", "m"}
IsMap(n) == n.k \in {"md", "mm"}
IsLeaf(n) == n.k \in {"d", "md"}

\* ---------------------------------------------------------------- arrays
APrefix(n) == IF n.inl THEN ArrayInlinedPrefix ELSE IF n.root THEN ArrayRootDataPrefix ELSE ArrayDataPrefix

\* every nested container met while walking (inlined children and referenced ones)
RECURSIVE AllNodes(_), AllNodesSeq(_)
AllNodesSeq(s) == UNION {AllNodes(s[i]) : i \in 1..Len(s)}
AllNodes(n) ==
  {n} \cup (IF n.k = "d" THEN UNION {AllNodesSeq(n.e[i].ch) : i \in 1..Len(n.e)}
            ELSE IF n.k = "m" THEN AllNodesSeq(n.c)
            ELSE {})

\* size band: every standalone (not inlined) size-limited slab
ASizeBandNode(n) == n.inl \/ (n.sz <= MaxT /\ (n.root \/ n.sz >= MinT))
AElemLimitsNode(n) == n.k = "d" => \A i \in 1..Len(n.e) : n.e[i].sz <= MaxInlineArrayElem(T)
ARootMetaNode(n) == (n.k = "m" /\ n.root) => Len(n.c) >= 2

RECURSIVE PrefixSums(_, _)
PrefixSums(h, i) == IF i = 0 THEN 0 ELSE PrefixSums(h, i - 1) + h[i].cnt
AHeadersNode(n) ==
  n.k = "m" =>
    /\ Len(n.h) = Len(n.c) /\ Len(n.c) >= 1
    /\ \A i \in 1..Len(n.c) : /\ n.h[i].id = n.c[i].id /\ n.h[i].sz = n.c[i].sz /\ n.h[i].cnt = n.c[i].cnt
                              /\ n.h[i].sum = PrefixSums(n.h, i)
    /\ n.cnt = PrefixSums(n.h, Len(n.h))
    /\ n.sz = ArrayMetaPrefix + ArrayHeaderSize * Len(n.h)
ADataSizeNode(n) == n.k = "d" => (n.cnt = Len(n.e) /\ n.sz = APrefix(n) + SumElemSz(n.e))

\* leaves in left-to-right order are chained by their next links; the last link is empty
RECURSIVE ALeaves(_), ALeavesSeq(_)
ALeavesSeq(s) == IF s = <<>> THEN <<>> ELSE ALeaves(Head(s)) \o ALeavesSeq(Tail(s))
ALeaves(n) == IF n.k = "d" THEN <<n>> ELSE ALeavesSeq(n.c)
ANextLinks(root) == LET ls == ALeaves(root) IN
  \A i \in 1..Len(ls) : ls[i].nxt = (IF i < Len(ls) THEN ls[i + 1].id ELSE 0)

\* C05 oracle on one array tree (own slabs only; nested containers are checked as trees of their own)
RECURSIVE AOwnNodes(_)
AOwnNodes(n) == {n} \cup (IF n.k = "m" THEN UNION {AOwnNodes(n.c[i]) : i \in 1..Len(n.c)} ELSE {})
ArrayWellFormed(root) ==
  /\ \A n \in AOwnNodes(root) : ASizeBandNode(n) /\ AElemLimitsNode(n) /\ ARootMetaNode(n) /\ AHeadersNode(n)
  /\ ANextLinks(root)
ArraySizesAgree(root) == \A n \in AOwnNodes(root) : ADataSizeNode(n) /\ AHeadersNode(n)

\* flattening: element ids in index order
RECURSIVE AFlatten(_), AFlattenSeq(_)
AFlattenSeq(s) == IF s = <<>> THEN <<>> ELSE AFlatten(Head(s)) \o AFlattenSeq(Tail(s))
AFlatten(n) == IF n.k = "d" THEN [i \in 1..Len(n.e) |-> n.e[i].v] ELSE AFlattenSeq(n.c)
RECURSIVE AFlattenElems(_), AFlattenElemsSeq(_)
AFlattenElemsSeq(s) == IF s = <<>> THEN <<>> ELSE AFlattenElems(Head(s)) \o AFlattenElemsSeq(Tail(s))
AFlattenElems(n) == IF n.k = "d" THEN n.e ELSE AFlattenElemsSeq(n.c)
=============================================================================
