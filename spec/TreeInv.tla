------------------------------ MODULE TreeInv ------------------------------
(***************************************************************************)
(* Layer B: well-formedness, size bookkeeping and link predicates over ONE *)
(* observed slab forest, as projected by the harness from the real slabs   *)
(* (or derived by layer C from a model tree).  These are the predicates    *)
(* of C05 / C06 / C09 / C10 written once.                                  *)
(*                                                                         *)
(* array node:  [k "d"|"m", id, sz, cnt, nxt, inl, root, e, h, c]          *)
(*   e: <<[c class, w wrapper levels, sz stored size, v id, vsz, ch <<child>>]>>   *)
(*   h: <<[id, sz, cnt, sum]>>  the parent's copies of the child headers   *)
(* map node:    [k "md"|"mm", id, sz, fk, nxt, inl, root, any, cg, cnt, els, h, c] *)
(***************************************************************************)
EXTENDS Thresholds, Sequences, FiniteSets

CONSTANT T
LOCAL MinT == MinOf(T)
LOCAL MaxT == MaxOf(T)

RECURSIVE SumElemSz(_)
SumElemSz(s) == IF s = <<>> THEN 0 ELSE Head(s).sz + SumElemSz(Tail(s))

IsArr(n) == n.k \in {"d", "m"}
IsMap(n) == n.k \in {"md", "mm"}
IsLeaf(n) == n.k \in {"d", "md"}

\* ---------------------------------------------------------------- arrays
APrefix(n) == IF n.inl THEN ArrayInlinedPrefix ELSE IF n.root THEN ArrayRootDataPrefix ELSE ArrayDataPrefix

\* every nested container met while walking (inlined children and referenced ones)
RECURSIVE AllNodes(_), AllNodesSeq(_)
AllNodesSeq(s) == UNION {AllNodes(s[i]) : i \in 1..Len(s)}
AllNodes(n) ==
  {n} \cup (IF n.k = "d" THEN UNION {AllNodesSeq(n.e[i].ch) : i \in 1..Len(n.e)}
            ELSE IF n.k = "m" THEN AllNodesSeq(n.c)
            ELSE {})

\* size band: every standalone (not inlined) size-limited slab
ASizeBandNode(n) == n.inl \/ (n.sz <= MaxT /\ (n.root \/ n.sz >= MinT))
AElemLimitsNode(n) == n.k = "d" => \A i \in 1..Len(n.e) : n.e[i].sz <= MaxInlineArrayElem(T)
ARootMetaNode(n) == (n.k = "m" /\ n.root) => Len(n.c) >= 2

RECURSIVE PrefixSums(_, _)
PrefixSums(h, i) == IF i = 0 THEN 0 ELSE PrefixSums(h, i - 1) + h[i].cnt
AHeadersNode(n) ==
  n.k = "m" =>
    /\ Len(n.h) = Len(n.c) /\ Len(n.c) >= 1
    /\ \A i \in 1..Len(n.c) : /\ n.h[i].id = n.c[i].id /\ n.h[i].sz = n.c[i].sz /\ n.h[i].cnt = n.c[i].cnt
                              /\ n.h[i].sum = PrefixSums(n.h, i)
    /\ n.cnt = PrefixSums(n.h, Len(n.h))
    /\ n.sz = ArrayMetaPrefix + ArrayHeaderSize * Len(n.h)
ADataSizeNode(n) == n.k = "d" => (n.cnt = Len(n.e) /\ n.sz = APrefix(n) + SumElemSz(n.e))

\* leaves in left-to-right order are chained by their next links; the last link is empty
RECURSIVE ALeaves(_), ALeavesSeq(_)
ALeavesSeq(s) == IF s = <<>> THEN <<>> ELSE ALeaves(Head(s)) \o ALeavesSeq(Tail(s))
ALeaves(n) == IF n.k = "d" THEN <<n>> ELSE ALeavesSeq(n.c)
ANextLinks(root) == LET ls == ALeaves(root) IN
  \A i \in 1..Len(ls) : ls[i].nxt = (IF i < Len(ls) THEN ls[i + 1].id ELSE 0)

\* C05 oracle on one array tree (own slabs only; nested containers are checked as trees of their own)
RECURSIVE AOwnNodes(_)
AOwnNodes(n) == {n} \cup (IF n.k = "m" THEN UNION {AOwnNodes(n.c[i]) : i \in 1..Len(n.c)} ELSE {})
ArrayWellFormed(root) ==
  /\ \A n \in AOwnNodes(root) : ASizeBandNode(n) /\ AElemLimitsNode(n) /\ ARootMetaNode(n) /\ AHeadersNode(n)
  /\ ANextLinks(root)
ArraySizesAgree(root) == \A n \in AOwnNodes(root) : ADataSizeNode(n) /\ AHeadersNode(n)

\* flattening: element ids in index order
RECURSIVE AFlatten(_), AFlattenSeq(_)
AFlattenSeq(s) == IF s = <<>> THEN <<>> ELSE AFlatten(Head(s)) \o AFlattenSeq(Tail(s))
AFlatten(n) == IF n.k = "d" THEN [i \in 1..Len(n.e) |-> n.e[i].v] ELSE AFlattenSeq(n.c)
RECURSIVE AFlattenElems(_), AFlattenElemsSeq(_)
AFlattenElemsSeq(s) == IF s = <<>> THEN <<>> ELSE AFlattenElems(Head(s)) \o AFlattenElemsSeq(Tail(s))
AFlattenElems(n) == IF n.k = "d" THEN n.e ELSE AFlattenElemsSeq(n.c)

\* ------------------------------------------------------------------ maps
MPrefix(n) == IF n.inl THEN MapInlinedPrefix ELSE IF n.root THEN MapRootDataPrefix ELSE MapDataPrefix

RECURSIVE MSumElems(_, _)
MSumElems(el, extra) == IF el = <<>> THEN 0 ELSE extra + Head(el).sz + MSumElems(Tail(el), extra)

StrictlyAscending(s) == \A i \in 1..(Len(s) - 1) : s[i] < s[i + 1]

\* sizes, digests and levels inside one element list (recursively through groups)
RECURSIVE MElsOK(_, _), MElemOK(_, _)
MElsOK(E, lvl) ==
  /\ E.lvl = lvl
  /\ IF E.t = "h"
     THEN /\ Len(E.hk) = Len(E.el) /\ StrictlyAscending(E.hk)
          /\ E.sz = HkeyElementsPrefix + MSumElems(E.el, DigestSize)
     ELSE /\ E.sz = SingleElementsPrefix + MSumElems(E.el, 0)
          /\ \A i \in 1..Len(E.el) : E.el[i].t = "s"
  /\ \A i \in 1..Len(E.el) : MElemOK(E.el[i], lvl)
MElemOK(x, lvl) ==
  CASE x.t = "s" -> x.sz = SingleElementPrefix + x.k[1].sz + x.v[1].sz
    [] x.t = "g" -> /\ x.sz = InlineGroupPrefix + x.els[1].sz /\ MElsOK(x.els[1], lvl + 1)
    [] x.t = "x" -> /\ x.sz = ExternalGroupSize
                    /\ LET g == x.x[1] IN
                       /\ g.k = "md" /\ g.any /\ g.cg /\ ~g.inl /\ ~g.root /\ g.nxt = 0
                       /\ g.sz = MapDataPrefix + g.els[1].sz
                       /\ MElsOK(g.els[1], lvl + 1)
                       /\ g.fk = (IF Len(g.els[1].hk) > 0 THEN g.els[1].hk[1] ELSE 0)
    [] OTHER -> FALSE

\* per-element inline limits (C05): level-0 elements of size-limited slabs, keys and values of single elements
RECURSIVE MLimitsEls(_, _)
MLimitsEls(E, top) ==
  \A i \in 1..Len(E.el) :
    LET x == E.el[i] IN
    /\ (top => x.sz <= MaxInlineMapElem(T))
    /\ CASE x.t = "s" -> /\ x.k[1].sz <= MaxInlineMapKey(T) /\ x.v[1].sz <= MaxInlineMapValue(T, x.k[1].sz)
         [] x.t = "g" -> MLimitsEls(x.els[1], FALSE)
         [] x.t = "x" -> MLimitsEls(x.x[1].els[1], FALSE)
         [] OTHER -> FALSE

MSizeBandNode(n) == (n.inl \/ n.any) \/ (n.sz <= MaxT /\ (n.root \/ n.sz >= MinT))
MDataNode(n) == n.k = "md" =>
  /\ n.sz = MPrefix(n) + n.els[1].sz
  /\ n.fk = (IF Len(n.els[1].hk) > 0 THEN n.els[1].hk[1] ELSE 0)
  /\ MElsOK(n.els[1], 0)
  /\ ~n.any /\ ~n.cg
MLimitsNode(n) == n.k = "md" => MLimitsEls(n.els[1], TRUE)
MMetaNode(n) == n.k = "mm" =>
  /\ Len(n.h) = Len(n.c) /\ Len(n.c) >= 1
  /\ \A i \in 1..Len(n.c) : n.h[i].id = n.c[i].id /\ n.h[i].sz = n.c[i].sz /\ n.h[i].fk = n.c[i].fk
  /\ n.sz = MapMetaPrefix + MapHeaderSize * Len(n.h)
  /\ n.fk = n.h[1].fk
  /\ \A i \in 1..(Len(n.h) - 1) : n.h[i].fk < n.h[i + 1].fk
  /\ (n.root => Len(n.c) >= 2)

RECURSIVE MOwnNodes(_)
MOwnNodes(n) == {n} \cup (IF n.k = "mm" THEN UNION {MOwnNodes(n.c[i]) : i \in 1..Len(n.c)} ELSE {})
RECURSIVE MLeaves(_), MLeavesSeq(_)
MLeavesSeq(s) == IF s = <<>> THEN <<>> ELSE MLeaves(Head(s)) \o MLeavesSeq(Tail(s))
MLeaves(n) == IF n.k = "md" THEN <<n>> ELSE MLeavesSeq(n.c)
MNextLinks(root) == LET ls == MLeaves(root) IN
  /\ \A i \in 1..Len(ls) : ls[i].nxt = (IF i < Len(ls) THEN ls[i + 1].id ELSE 0)
  /\ \A i \in 1..(Len(ls) - 1) : /\ ls[i].fk < ls[i + 1].fk
                                  /\ Len(ls[i].els[1].hk) > 0
                                  /\ ls[i].els[1].hk[Len(ls[i].els[1].hk)] < ls[i + 1].fk

\* entries in traversal order: <<key element, value element>>
RECURSIVE MEntriesEls(_), MEntriesSeq(_)
MEntriesSeq(el) == IF el = <<>> THEN <<>>
                   ELSE LET x == Head(el) IN
                        (CASE x.t = "s" -> <<<<x.k[1], x.v[1]>>>>
                           [] x.t = "g" -> MEntriesEls(x.els[1])
                           [] x.t = "x" -> MEntriesEls(x.x[1].els[1])
                           [] OTHER -> <<>>) \o MEntriesSeq(Tail(el))
MEntriesEls(E) == MEntriesSeq(E.el)
RECURSIVE MEntriesLeaves(_)
MEntriesLeaves(ls) == IF ls = <<>> THEN <<>> ELSE MEntriesEls(Head(ls).els[1]) \o MEntriesLeaves(Tail(ls))
MEntries(root) == MEntriesLeaves(MLeaves(root))

\* C05 oracle on one map tree
MapWellFormed(root) ==
  /\ \A n \in MOwnNodes(root) : MSizeBandNode(n) /\ MLimitsNode(n) /\ MMetaNode(n) /\ MDataNode(n)
  /\ MNextLinks(root)
  /\ root.cnt = Len(MEntries(root))
MapSizesAgree(root) == \A n \in MOwnNodes(root) : MDataNode(n) /\ MMetaNode(n)

\* ------------------------------------------------------------- nested containers
\* elements (array elements, map keys and values) of one container tree, with the limit that applies to each
RECURSIVE MValueElems(_), MValueElemsSeq(_)
MValueElemsSeq(el) == IF el = <<>> THEN <<>>
                      ELSE LET x == Head(el) IN
                           (CASE x.t = "s" -> << [e |-> x.v[1], lim |-> MaxInlineMapValue(T, x.k[1].sz)] >>
                              [] x.t = "g" -> MValueElems(x.els[1])
                              [] x.t = "x" -> MValueElems(x.x[1].els[1])
                              [] OTHER -> <<>>) \o MValueElemsSeq(Tail(el))
MValueElems(E) == MValueElemsSeq(E.el)
RECURSIVE MValueElemsLeaves(_)
MValueElemsLeaves(ls) == IF ls = <<>> THEN <<>> ELSE MValueElems(Head(ls).els[1]) \o MValueElemsLeaves(Tail(ls))
ChildSlots(root) ==      \* <<[e, lim]>> for every element that may hold a nested container
  IF IsArr(root) THEN LET es == AFlattenElems(root) IN [i \in 1..Len(es) |-> [e |-> es[i], lim |-> MaxInlineArrayElem(T)]]
  ELSE MValueElemsLeaves(MLeaves(root))

IsContainerElem(e) == e.c \in {"A", "M", "RA", "RM"}
\* every container tree reachable from a root (the root itself, inlined children, referenced children), recursively
RECURSIVE Containers(_)
Containers(root) ==
  LET cs == ChildSlots(root) IN
  {root} \cup UNION {Containers(cs[i].e.ch[1]) : i \in {j \in 1..Len(cs) : IsContainerElem(cs[j].e)}}

ContainerWellFormed(c) == IF IsArr(c) THEN ArrayWellFormed(c) ELSE MapWellFormed(c)
ForestWellFormed(root) == \A c \in Containers(root) : ContainerWellFormed(c)

\* C10: a child is stored inline exactly when it is a single slab whose inlined size fits the parent's per-element limit
InlinedSizeOf(c) == IF c.k = "d" THEN c.sz - (IF c.inl THEN ArrayInlinedPrefix ELSE ArrayRootDataPrefix) + ArrayInlinedPrefix
                    ELSE c.sz - (IF c.inl THEN MapInlinedPrefix ELSE MapRootDataPrefix) + MapInlinedPrefix
SlotOK(s) ==
  LET e == s.e IN
  IF ~IsContainerElem(e) THEN TRUE
  ELSE LET c == e.ch[1]
           wrapper == e.sz - (IF e.c \in {"A", "M"} THEN c.sz ELSE SlabIDStorableSize)
           fits == c.k \in {"d", "md"} /\ InlinedSizeOf(c) + wrapper <= s.lim
       IN /\ (e.c \in {"A", "M"}) = fits           \* inlined <=> fits
          /\ (e.c \in {"A", "M"}) = c.inl          \* the child's own flag agrees with where it is stored
          /\ c.root                                \* a nested container is the root of a value
InlineIffFits(root) == \A c \in Containers(root) : \A i \in 1..Len(ChildSlots(c)) : SlotOK(ChildSlots(c)[i])

\* ------------------------------------------------------------- byte-level relations (C06, C07)
\* does a slab hold references to other slabs (at any inline depth)?  Index slabs have no elements.
RECURSIVE ElemHasPtr(_), NodeHasPtr(_), ElsHasPtr(_)
ElemHasPtr(e) == e.c \in {"L", "RA", "RM", "dangling"} \/ (e.c \in {"A", "M"} /\ NodeHasPtr(e.ch[1]))
ElsHasPtr(E) == \E i \in 1..Len(E.el) :
                  LET x == E.el[i] IN
                  CASE x.t = "s" -> ElemHasPtr(x.k[1]) \/ ElemHasPtr(x.v[1])
                    [] x.t = "g" -> ElsHasPtr(x.els[1])
                    [] x.t = "x" -> TRUE
                    [] OTHER -> FALSE
NodeHasPtr(n) == CASE n.k = "d" -> \E i \in 1..Len(n.e) : ElemHasPtr(n.e[i])
                   [] n.k = "md" -> ElsHasPtr(n.els[1])
                   [] OTHER -> FALSE
\* every standalone slab of a container tree and of everything it references
RECURSIVE ExternalGroups(_)
ExternalGroups(E) == UNION {IF E.el[i].t = "x" THEN {E.el[i].x[1]} \cup ExternalGroups(E.el[i].x[1].els[1])
                            ELSE IF E.el[i].t = "g" THEN ExternalGroups(E.el[i].els[1]) ELSE {} : i \in 1..Len(E.el)}
OwnSlabs(c) == IF IsArr(c) THEN {n \in AOwnNodes(c) : ~n.inl}
               ELSE {n \in MOwnNodes(c) : ~n.inl} \cup UNION {ExternalGroups(n.els[1]) : n \in {m \in MOwnNodes(c) : m.k = "md"}}
SlabNodes(root) == UNION {OwnSlabs(c) : c \in Containers(root)}
\* C07: the flags readable from the raw register describe the slab (reg: one register observation)
FlagsOf(reg, nodes) ==
  LET ns == {n \in nodes : n.id = reg.id} IN
  IF ns = {} THEN ~reg.root /\ ~reg.lim                  \* a large value in its own slab: not a value root, no size limit
  ELSE \A n \in ns : reg.root = n.root /\ reg.lim = ~n.any /\ reg.ptr = NodeHasPtr(n)
\* C06: reported size = bytes written (body), up to the two documented savings; decoded slab reports the same size
SizeOf(reg, nodes) ==
  LET adj == IF ~reg.root /\ reg.isdata /\ ~reg.hasnext THEN 16 ELSE 0 IN
  /\ (reg.msz # 0 => reg.dsz = reg.msz)      \* msz = 0: the slab is not loaded in the live storage (after a cache drop)
  /\ IF reg.compact THEN reg.body + adj <= reg.dsz ELSE reg.body + adj = reg.dsz
  /\ \A n \in {m \in nodes : m.id = reg.id} : n.sz = reg.dsz
=============================================================================
