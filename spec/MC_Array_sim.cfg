SPECIFICATION Spec
CONSTANTS
  T = 256
  Sizes = {19, 60, 117, 130}
  MaxElems = 400
  EmitEdges = FALSE
  EmitOneIn = 1
  EmitExact = FALSE
  WithReads = TRUE
  AllowPop = TRUE
  GrowUntil = 0
  ShrinkFrom = 1000000
  AppendOnly = FALSE
  Persist = FALSE
  WithTree = FALSE
  EmitDepth = 150
  FanFrom = 150
INVARIANTS EmitWalk
CHECK_DEADLOCK FALSE
