------------------------------ MODULE MapDict ------------------------------
(***************************************************************************)
(* Layer A: an atree OrderedMap is a dictionary.  The state is a sequence  *)
(* of entries [k, v, d] in insertion order (k key id, v value id, d the    *)
(* 4-level digest vector of the key).  Each operator returns the new       *)
(* dictionary and the result the API must report (C02, C12, C13, C18).     *)
(***************************************************************************)
EXTENDS Integers, Sequences, FiniteSets, SequencesExt

Levels == 4

HasKey(D, k) == \E i \in 1..Len(D) : D[i].k = k
IdxOf(D, k)  == CHOOSE i \in 1..Len(D) : D[i].k = k
ValOf(D, k)  == D[IdxOf(D, k)].v
DropAt(s, i) == [j \in 1..(Len(s) - 1) |-> IF j < i THEN s[j] ELSE s[j + 1]]

\* C12: a NEW key is refused iff the entries sharing its first-level digest already
\* carry more than `limit` distinct second-level digests
Refused(D, k, kd, limit) ==
  /\ ~HasKey(D, k)
  /\ Cardinality({D[i].d[2] : i \in {j \in 1..Len(D) : D[j].d[1] = kd[1]}}) > limit

MOk(v, found)   == [class |-> "ok", cat |-> "", v |-> v, found |-> found]
MNotFound       == [class |-> "KeyNotFound", cat |-> "user", v |-> 0, found |-> FALSE]
MLimit          == [class |-> "CollisionLimit", cat |-> "fatal", v |-> 0, found |-> FALSE]

MSet(D, k, kd, v, limit) ==
  IF Refused(D, k, kd, limit) THEN [s |-> D, r |-> MLimit]
  ELSE IF HasKey(D, k) THEN [s |-> [D EXCEPT ![IdxOf(D, k)].v = v], r |-> MOk(ValOf(D, k), TRUE)]
  ELSE [s |-> Append(D, [k |-> k, v |-> v, d |-> kd]), r |-> MOk(0, FALSE)]
MGet(D, k) == IF HasKey(D, k) THEN [s |-> D, r |-> MOk(ValOf(D, k), TRUE)] ELSE [s |-> D, r |-> MNotFound]
MHas(D, k) == [s |-> D, r |-> MOk(0, HasKey(D, k))]
MRem(D, k) == IF HasKey(D, k) THEN [s |-> DropAt(D, IdxOf(D, k)), r |-> MOk(ValOf(D, k), TRUE)] ELSE [s |-> D, r |-> MNotFound]

\* canonical enumeration order (C13): ascending digest vector, insertion order among full collisions
VecLess(x, y) == \E l \in 1..Levels : (\A m \in 1..(l - 1) : x[m] = y[m]) /\ x[l] < y[l]
Before(D, i, j) == VecLess(D[i].d, D[j].d) \/ (D[i].d = D[j].d /\ i < j)
Canonical(D) == LET idx == [i \in 1..Len(D) |-> [e |-> D[i], i |-> i]]
                    srt == SortSeq(idx, LAMBDA a, b : VecLess(a.e.d, b.e.d) \/ (a.e.d = b.e.d /\ a.i < b.i))
                IN [p \in 1..Len(D) |-> srt[p].e]
CanonKeys(D) == [p \in 1..Len(D) |-> Canonical(D)[p].k]
CanonVals(D) == [p \in 1..Len(D) |-> Canonical(D)[p].v]
Pairs(D) == {<<D[i].k, D[i].v>> : i \in 1..Len(D)}
=============================================================================
