----------------------------- MODULE ArrayTree -----------------------------
(***************************************************************************)
(* Layer C: the slab-tree algorithm of atree's Array, transcribed from     *)
(* array.go, array_data_slab.go, array_metadata_slab.go over element       *)
(* SIZES (content is irrelevant to the structure).  One operator per Go    *)
(* function.  A tree is                                                    *)
(*    [k |-> "d", e |-> <<elem>>]   data slab (leaf)                       *)
(*    [k |-> "m", c |-> <<node>>]   index slab                             *)
(* an element is [id |-> n, vsz |-> encoded size of the value].  A value   *)
(* larger than the inline limit is stored in its own slab and referenced   *)
(* (19 bytes).  Never produces verdicts on the code: it drives exploration *)
(* and is compared with the observed trees as "drift".                     *)
(***************************************************************************)
EXTENDS Thresholds, Sequences, FiniteSets, TLC

CONSTANT T    \* configured slab size

MinT == MinOf(T)
MaxT == MaxOf(T)
MaxElem == MaxInlineArrayElem(T)

Data(es) == [k |-> "d", e |-> es]
Meta(cs) == [k |-> "m", c |-> cs]
EmptyTree == Data(<<>>)

SSz(x) == IF x.vsz > MaxElem THEN SlabIDStorableSize ELSE x.vsz   \* stored size of an element
IsLarge(x) == x.vsz > MaxElem

RECURSIVE SumSz(_)
SumSz(es) == IF es = <<>> THEN 0 ELSE SSz(Head(es)) + SumSz(Tail(es))
RECURSIVE Count(_), CountSeq(_)
Count(n) == IF n.k = "d" THEN Len(n.e) ELSE CountSeq(n.c)
CountSeq(cs) == IF cs = <<>> THEN 0 ELSE Count(Head(cs)) + CountSeq(Tail(cs))
Size(n) == IF n.k = "d" THEN ArrayDataPrefix + SumSz(n.e) ELSE ArrayMetaPrefix + ArrayHeaderSize * Len(n.c)   \* as a non-root slab
RootSize(n) == IF n.k = "d" THEN ArrayRootDataPrefix + SumSz(n.e) ELSE ArrayMetaPrefix + ArrayHeaderSize * Len(n.c)
IsFull(n) == Size(n) > MaxT
IsUnder(n) == Size(n) < MinT
UnderBy(n) == MinT - Size(n)
RECURSIVE Flatten(_), FlattenSeq(_)
Flatten(n) == IF n.k = "d" THEN n.e ELSE FlattenSeq(n.c)
FlattenSeq(cs) == IF cs = <<>> THEN <<>> ELSE Flatten(Head(cs)) \o FlattenSeq(Tail(cs))
SubSeqSafe(s, a, b) == IF a > b THEN <<>> ELSE SubSeq(s, a, b)
RECURSIVE Depth(_)
Depth(n) == IF n.k = "d" THEN 1 ELSE 1 + Depth(n.c[1])
RECURSIVE DataSlabs(_), DataSlabsSeq(_)
DataSlabs(n) == IF n.k = "d" THEN 1 ELSE DataSlabsSeq(n.c)
DataSlabsSeq(cs) == IF cs = <<>> THEN 0 ELSE DataSlabs(Head(cs)) + DataSlabsSeq(Tail(cs))

\* ArrayDataSlab.Split: mid-point scan, the element at the mid-point goes to the smaller side
RECURSIVE SplitScan(_, _, _, _, _)
SplitScan(es, i, leftSize, dataSize, midPoint) ==
  IF i > Len(es) THEN 0
  ELSE LET sz == SSz(es[i]) IN
       IF leftSize + sz >= midPoint
       THEN IF leftSize <= dataSize - leftSize - sz THEN i ELSE i - 1
       ELSE SplitScan(es, i + 1, leftSize + sz, dataSize, midPoint)
SplitData(n) == LET dataSize == SumSz(n.e)
                    lc == SplitScan(n.e, 1, 0, dataSize, (dataSize + 1) \div 2)
                IN <<Data(SubSeqSafe(n.e, 1, lc)), Data(SubSeqSafe(n.e, lc + 1, Len(n.e)))>>
\* ArrayMetaDataSlab.Split: ceil half
SplitMeta(n) == LET cnt == Len(n.c)  lc == (cnt + 1) \div 2
                IN <<Meta(SubSeqSafe(n.c, 1, lc)), Meta(SubSeqSafe(n.c, lc + 1, cnt))>>
Split(n) == IF n.k = "d" THEN SplitData(n) ELSE SplitMeta(n)

RECURSIVE CanLendScanL(_, _, _, _, _)
CanLendScanL(es, i, lend, total, need) ==
  IF i > Len(es) THEN FALSE
  ELSE LET l2 == lend + SSz(es[i]) IN
       IF total - l2 < MinT THEN FALSE ELSE IF l2 >= need THEN TRUE ELSE CanLendScanL(es, i + 1, l2, total, need)
RECURSIVE CanLendScanR(_, _, _, _, _)
CanLendScanR(es, i, lend, total, need) ==
  IF i < 1 THEN FALSE
  ELSE LET l2 == lend + SSz(es[i]) IN
       IF total - l2 < MinT THEN FALSE ELSE IF l2 >= need THEN TRUE ELSE CanLendScanR(es, i - 1, l2, total, need)
CeilDiv(a, b) == (a + b - 1) \div b
CanLendToLeft(n, need) ==
  IF n.k = "d" THEN Len(n.e) >= 2 /\ Size(n) - need >= MinT /\ CanLendScanL(n.e, 1, 0, Size(n), need)
  ELSE LET q == CeilDiv(need, ArrayHeaderSize) IN Size(n) >= ArrayHeaderSize * q /\ Size(n) - ArrayHeaderSize * q > MinT
CanLendToRight(n, need) ==
  IF n.k = "d" THEN Len(n.e) >= 2 /\ Size(n) - need >= MinT /\ CanLendScanR(n.e, Len(n.e), 0, Size(n), need)
  ELSE LET q == CeilDiv(need, ArrayHeaderSize) IN Size(n) >= ArrayHeaderSize * q /\ Size(n) - ArrayHeaderSize * q > MinT

RECURSIVE LendScan(_, _, _, _, _)
LendScan(es, i, leftSize, size, midPoint) ==
  IF i < 1 THEN 0
  ELSE LET sz == SSz(es[i]) IN
       IF leftSize - sz < midPoint /\ size - leftSize >= MinT THEN i
       ELSE LendScan(es, i - 1, leftSize - sz, size, midPoint)
LendToRight(l, r) ==
  IF l.k = "d"
  THEN LET size == Size(l) + Size(r)
           lc == LendScan(l.e, Len(l.e), Size(l), size, (size + 1) \div 2)
       IN <<Data(SubSeqSafe(l.e, 1, lc)), Data(SubSeqSafe(l.e, lc + 1, Len(l.e)) \o r.e)>>
  ELSE LET all == l.c \o r.c  lc == Len(all) \div 2
       IN <<Meta(SubSeqSafe(all, 1, lc)), Meta(SubSeqSafe(all, lc + 1, Len(all)))>>
RECURSIVE BorrowScan(_, _, _, _, _)
BorrowScan(res, i, leftSize, size, midPoint) ==
  IF i > Len(res) THEN i - 1
  ELSE LET sz == SSz(res[i]) IN
       IF leftSize + sz > midPoint THEN (IF size - leftSize - sz >= MinT THEN i ELSE i - 1)
       ELSE BorrowScan(res, i + 1, leftSize + sz, size, midPoint)
BorrowFromRight(l, r) ==
  IF l.k = "d"
  THEN LET size == Size(l) + Size(r)
           mv == BorrowScan(r.e, 1, Size(l), size, (size + 1) \div 2)
       IN <<Data(l.e \o SubSeqSafe(r.e, 1, mv)), Data(SubSeqSafe(r.e, mv + 1, Len(r.e)))>>
  ELSE LET all == l.c \o r.c  lc == Len(all) \div 2
       IN <<Meta(SubSeqSafe(all, 1, lc)), Meta(SubSeqSafe(all, lc + 1, Len(all)))>>
MergeNodes(l, r) == IF l.k = "d" THEN Data(l.e \o r.e) ELSE Meta(l.c \o r.c)
ReplaceAt(s, i, new) == SubSeqSafe(s, 1, i - 1) \o new \o SubSeqSafe(s, i + 1, Len(s))
Replace2(s, i, new) == SubSeqSafe(s, 1, i - 1) \o new \o SubSeqSafe(s, i + 2, Len(s))

\* ArrayMetaDataSlab.MergeOrRebalanceChildSlab: the 3 x 3 table.  Returns <<children, branch label>>.
MergeOrRebalance(cs, ci) ==
  LET child == cs[ci]   need == UnderBy(child)
      hasL == ci > 1    hasR == ci < Len(cs)
      leftCan == hasL /\ CanLendToRight(cs[ci - 1], need)
      rightCan == hasR /\ CanLendToLeft(cs[ci + 1], need)
  IN IF leftCan \/ rightCan
     THEN IF ~leftCan THEN Replace2(cs, ci, BorrowFromRight(child, cs[ci + 1]))
          ELSE IF ~rightCan THEN Replace2(cs, ci - 1, LendToRight(cs[ci - 1], child))
          ELSE IF Size(cs[ci - 1]) > Size(cs[ci + 1]) THEN Replace2(cs, ci - 1, LendToRight(cs[ci - 1], child))
          ELSE Replace2(cs, ci, BorrowFromRight(child, cs[ci + 1]))
     ELSE IF ~hasL THEN Replace2(cs, ci, <<MergeNodes(child, cs[ci + 1])>>)
          ELSE IF ~hasR THEN Replace2(cs, ci - 1, <<MergeNodes(cs[ci - 1], child)>>)
          ELSE IF Size(cs[ci - 1]) < Size(cs[ci + 1]) THEN Replace2(cs, ci - 1, <<MergeNodes(cs[ci - 1], child)>>)
          ELSE Replace2(cs, ci, <<MergeNodes(child, cs[ci + 1])>>)

\* childSlabIndexInfo: both the linear scan and the binary search over cumulative counts
RECURSIVE Route(_, _, _)
Route(cs, ci, idx) == IF idx < Count(cs[ci]) THEN <<ci, idx>> ELSE Route(cs, ci + 1, idx - Count(cs[ci]))
RECURSIVE CumSum(_, _)
CumSum(cs, i) == IF i = 0 THEN 0 ELSE CumSum(cs, i - 1) + Count(cs[i])
RECURSIVE BinSearch(_, _, _, _)
BinSearch(cs, low, high, idx) ==        \* low, high 0-based as in the Go code; returns the 0-based child index
  IF low >= high THEN low
  ELSE LET mid == (low + high) \div 2
           s == CumSum(cs, mid + 1)
       IN IF s < idx THEN BinSearch(cs, mid + 1, high, idx)
          ELSE IF s > idx THEN BinSearch(cs, low, mid, idx)
          ELSE mid + 1
RouteBinary(cs, idx) == LET ci == BinSearch(cs, 0, Len(cs), idx) + 1
                        IN <<ci, idx + Count(cs[ci]) - CumSum(cs, ci)>>
RoutingAgrees(cs, idx) == Route(cs, 1, idx) = RouteBinary(cs, idx)

InsertAt(s, i, x) == SubSeqSafe(s, 1, i) \o <<x>> \o SubSeqSafe(s, i + 1, Len(s))   \* i 0-based
RemoveAt(s, i) == SubSeqSafe(s, 1, i) \o SubSeqSafe(s, i + 2, Len(s))
SetAt(s, i, x) == SubSeqSafe(s, 1, i) \o <<x>> \o SubSeqSafe(s, i + 2, Len(s))

RECURSIVE NInsert(_, _, _)
NInsert(n, idx, x) ==
  IF n.k = "d" THEN Data(InsertAt(n.e, idx, x))
  ELSE LET rt == IF idx = Count(n) THEN <<Len(n.c), Count(n.c[Len(n.c)])>> ELSE Route(n.c, 1, idx)
           nc == NInsert(n.c[rt[1]], rt[2], x)
       IN IF IsFull(nc) THEN Meta(ReplaceAt(n.c, rt[1], Split(nc))) ELSE Meta(ReplaceAt(n.c, rt[1], <<nc>>))
RECURSIVE NRemove(_, _)
NRemove(n, idx) ==
  IF n.k = "d" THEN Data(RemoveAt(n.e, idx))
  ELSE LET rt == Route(n.c, 1, idx)
           nc == NRemove(n.c[rt[1]], rt[2])
           cs == ReplaceAt(n.c, rt[1], <<nc>>)
       IN IF IsUnder(nc) THEN Meta(MergeOrRebalance(cs, rt[1])) ELSE Meta(cs)
RECURSIVE NSet(_, _, _)
NSet(n, idx, x) ==
  IF n.k = "d" THEN Data(SetAt(n.e, idx, x))
  ELSE LET rt == Route(n.c, 1, idx)
           nc == NSet(n.c[rt[1]], rt[2], x)
           cs == ReplaceAt(n.c, rt[1], <<nc>>)
       IN IF IsFull(nc) THEN Meta(ReplaceAt(n.c, rt[1], Split(nc)))
          ELSE IF IsUnder(nc) THEN Meta(MergeOrRebalance(cs, rt[1])) ELSE Meta(cs)
RootIsFull(n) == RootSize(n) > MaxT
SplitRoot(n) == Meta(Split(n))
Promote(n) == IF n.k = "m" /\ Len(n.c) = 1 THEN n.c[1] ELSE n

\* Array.Insert / Remove / Set / PopIterate
TInsert(t, idx, x) == LET r == NInsert(t, idx, x) IN IF RootIsFull(r) THEN SplitRoot(r) ELSE r
TRemove(t, idx) == Promote(NRemove(t, idx))
TSet(t, idx, x) == LET r == NSet(t, idx, x)  r2 == IF RootIsFull(r) THEN SplitRoot(r) ELSE r IN Promote(r2)
TPop(t) == EmptyTree
RECURSIVE ElemAt(_, _)
ElemAt(n, idx) == IF n.k = "d" THEN n.e[idx + 1]
                  ELSE LET rt == Route(n.c, 1, idx) IN ElemAt(n.c[rt[1]], rt[2])

\* NewArrayFromBatchData: append-only leaves closed at the target size, tail rebalance / merge,
\* index levels chunked by the maximum number of headers.
MaxHeaders == (MaxT - ArrayMetaPrefix) \div ArrayHeaderSize
RECURSIVE BatchLeaves(_, _, _)
BatchLeaves(es, cur, done) ==
  IF es = <<>> THEN Append(done, Data(cur))
  ELSE IF ArrayDataPrefix + SumSz(cur) >= T
       THEN BatchLeaves(Tail(es), <<Head(es)>>, Append(done, Data(cur)))
       ELSE BatchLeaves(Tail(es), Append(cur, Head(es)), done)
FixTail(slabs) ==
  IF Len(slabs) < 2 THEN slabs
  ELSE LET n == Len(slabs)  last == slabs[n]  left == slabs[n - 1] IN
       IF ~IsUnder(last) THEN slabs
       ELSE IF CanLendToRight(left, UnderBy(last))
            THEN SubSeqSafe(slabs, 1, n - 2) \o LendToRight(left, last)
            ELSE SubSeqSafe(slabs, 1, n - 2) \o <<MergeNodes(left, last)>>
RECURSIVE Chunk(_, _, _)
Chunk(slabs, cur, done) ==
  IF slabs = <<>> THEN Append(done, Meta(cur))
  ELSE IF Len(cur) = MaxHeaders THEN Chunk(Tail(slabs), <<Head(slabs)>>, Append(done, Meta(cur)))
       ELSE Chunk(Tail(slabs), Append(cur, Head(slabs)), done)
RECURSIVE BuildLevels(_)
BuildLevels(slabs) ==
  LET f == FixTail(slabs) IN
  IF Len(f) = 1 THEN f[1] ELSE BuildLevels(Chunk(f, <<>>, <<>>))
TBatch(es) == BuildLevels(BatchLeaves(es, <<>>, <<>>))

\* well-formedness of a model tree (the design-level statement of C05)
RECURSIVE WFNode(_, _)
WFNode(n, isRoot) ==
  /\ (IF isRoot THEN RootSize(n) ELSE Size(n)) <= MaxT
  /\ isRoot \/ Size(n) >= MinT
  /\ n.k = "d" => \A i \in 1..Len(n.e) : SSz(n.e[i]) <= MaxElem
  /\ n.k = "m" => /\ (isRoot => Len(n.c) >= 2) /\ Len(n.c) >= 1
                  /\ \A i \in 1..Len(n.c) : WFNode(n.c[i], FALSE)
RECURSIVE SameDepth(_)
SameDepth(n) == n.k = "d" \/ (\A i \in 1..Len(n.c) : SameDepth(n.c[i]) /\ Depth(n.c[i]) = Depth(n.c[1]))
RECURSIVE Shape(_)
Shape(n) == IF n.k = "d" THEN [k |-> "d", e |-> [i \in 1..Len(n.e) |-> n.e[i].vsz]]
            ELSE [k |-> "m", c |-> [i \in 1..Len(n.c) |-> Shape(n.c[i])]]
=============================================================================
