------------------------------ MODULE MC_Nested ------------------------------
(* Exhaustive (breadth-first) configuration of the Nested generator: every    *)
(* heap of up to MaxC containers with up to MaxE elements each over Sizes,    *)
(* every live-handle set, every placement of commit / cache drop / crash.     *)
(* Element identities and the history are hidden from the VIEW, so a state is *)
(* a *shape*; for every explored transition TLC prints the history reaching   *)
(* it, which the harness replays into the real code (edge mode: the prefix    *)
(* silently, the last operation recorded and judged by NestedTrace).          *)
EXTENDS Nested

CONSTANTS EmitEdges, EmitOneIn

ShapeOf(c) == [v \in 1..MaxC |->
                [kind |-> c[v].kind, par |-> c[v].par, ti |-> c[v].ti,
                 el |-> [i \in 1..Len(c[v].el) |->
                           [t |-> c[v].el[i].t, sz |-> c[v].el[i].sz, w |-> c[v].el[i].w, k |-> c[v].el[i].k,
                            id |-> IF c[v].el[i].t = "c" THEN c[v].el[i].id ELSE 0]]]]
View == <<ShapeOf(cont), live, nextVid, ShapeOf(committed), hasc>>

MCNext == Next /\ ((EmitEdges /\ (EmitOneIn <= 1 \/ RandomElement(1..EmitOneIn) = 1)) => PrintT(ToJson(hist')))
MCSpec == Init /\ [][MCNext]_nvars
=============================================================================
