---------------------------- MODULE MapSlabTree ----------------------------
(***************************************************************************)
(* Layer C (slab level): the slab-tree algorithm of atree's OrderedMap for *)
(* keys with DISTINCT first-level digests (collision groups are the        *)
(* subject of MapTree), transcribed from map.go, map_data_slab.go,         *)
(* map_metadata_slab.go and map_elements_hashkey.go over element SIZES and *)
(* digests.  A tree is                                                     *)
(*    [k |-> "d", e |-> <<elem>>]   data slab: elements sorted by digest   *)
(*    [k |-> "m", c |-> <<node>>]   index slab, children ordered by first  *)
(*                                  digest                                 *)
(* an element is [d |-> digest, key |-> key id, sz |-> size of the single  *)
(* element (1 + key + stored value)].  Never produces verdicts on the      *)
(* code: it is model-checked against MapDict (flattening, lookup routing,  *)
(* well-formedness) and compared with the observed trees as drift.         *)
(***************************************************************************)
EXTENDS Thresholds, Sequences, FiniteSets, TLC

CONSTANT T

MinT == MinOf(T)
MaxT == MaxOf(T)
MaxElem == MaxInlineMapElem(T)

Data(es) == [k |-> "d", e |-> es]
Meta(cs) == [k |-> "m", c |-> cs]
EmptyTree == Data(<<>>)

ES(x) == x.sz + DigestSize                       \* what an element adds to its slab
RECURSIVE SumES(_)
SumES(es) == IF es = <<>> THEN 0 ELSE ES(Head(es)) + SumES(Tail(es))
ElemsSize(es) == HkeyElementsPrefix + SumES(es)  \* hkeyElements.Size()
Size(n) == IF n.k = "d" THEN MapDataPrefix + ElemsSize(n.e) ELSE MapMetaPrefix + MapHeaderSize * Len(n.c)      \* as a non-root slab
RootSize(n) == IF n.k = "d" THEN MapRootDataPrefix + ElemsSize(n.e) ELSE MapMetaPrefix + MapHeaderSize * Len(n.c)
IsFull(n) == Size(n) > MaxT
IsUnder(n) == Size(n) < MinT
UnderBy(n) == MinT - Size(n)
RECURSIVE Flatten(_), FlattenSeq(_)
Flatten(n) == IF n.k = "d" THEN n.e ELSE FlattenSeq(n.c)
FlattenSeq(cs) == IF cs = <<>> THEN <<>> ELSE Flatten(Head(cs)) \o FlattenSeq(Tail(cs))
RECURSIVE FirstKey(_)
FirstKey(n) == IF n.k = "d" THEN (IF n.e = <<>> THEN 0 ELSE n.e[1].d) ELSE FirstKey(n.c[1])
SubSeqSafe(s, a, b) == IF a > b THEN <<>> ELSE SubSeq(s, a, b)
RECURSIVE Depth(_)
Depth(n) == IF n.k = "d" THEN 1 ELSE 1 + Depth(n.c[1])

\* hkeyElements.Split
RECURSIVE SplitScan(_, _, _, _, _)
SplitScan(es, i, leftSize, dataSize, midPoint) ==
  IF i > Len(es) THEN 0
  ELSE LET sz == ES(es[i]) IN
       IF leftSize + sz >= midPoint
       THEN IF leftSize <= dataSize - leftSize - sz THEN i ELSE i - 1
       ELSE SplitScan(es, i + 1, leftSize + sz, dataSize, midPoint)
SplitData(n) == LET dataSize == SumES(n.e)
                    lc == SplitScan(n.e, 1, 0, dataSize, (dataSize + 1) \div 2)
                IN <<Data(SubSeqSafe(n.e, 1, lc)), Data(SubSeqSafe(n.e, lc + 1, Len(n.e)))>>
SplitMeta(n) == LET cnt == Len(n.c)  lc == (cnt + 1) \div 2
                IN <<Meta(SubSeqSafe(n.c, 1, lc)), Meta(SubSeqSafe(n.c, lc + 1, cnt))>>
Split(n) == IF n.k = "d" THEN SplitData(n) ELSE SplitMeta(n)

\* hkeyElements.CanLendToLeft / CanLendToRight (sizes are those of the element list, minimum excludes the slab prefix)
MinElems == MinT - MapDataPrefix
RECURSIVE CanLendScanL(_, _, _, _, _)
CanLendScanL(es, i, lend, total, need) ==
  IF i > Len(es) THEN FALSE
  ELSE LET l2 == lend + ES(es[i]) IN
       IF total - l2 < MinElems THEN FALSE ELSE IF l2 >= need THEN TRUE ELSE CanLendScanL(es, i + 1, l2, total, need)
RECURSIVE CanLendScanR(_, _, _, _, _)
CanLendScanR(es, i, lend, total, need) ==
  IF i < 1 THEN FALSE
  ELSE LET l2 == lend + ES(es[i]) IN
       IF total - l2 < MinElems THEN FALSE ELSE IF l2 >= need THEN TRUE ELSE CanLendScanR(es, i - 1, l2, total, need)
CeilDiv(a, b) == (a + b - 1) \div b
CanLendToLeft(n, need) ==
  IF n.k = "d" THEN Len(n.e) >= 2 /\ ElemsSize(n.e) - need >= MinElems /\ CanLendScanL(n.e, 1, 0, ElemsSize(n.e), need)
  ELSE LET q == CeilDiv(need, MapHeaderSize) IN Size(n) >= MapHeaderSize * q /\ Size(n) - MapHeaderSize * q > MinT
CanLendToRight(n, need) ==
  IF n.k = "d" THEN Len(n.e) >= 2 /\ ElemsSize(n.e) - need >= MinElems /\ CanLendScanR(n.e, Len(n.e), 0, ElemsSize(n.e), need)
  ELSE LET q == CeilDiv(need, MapHeaderSize) IN Size(n) >= MapHeaderSize * q /\ Size(n) - MapHeaderSize * q > MinT

\* hkeyElements.LendToRight / BorrowFromRight: sizes without any prefix, minimum without slab and list prefix
MinBare == MinT - MapDataPrefix - HkeyElementsPrefix
RECURSIVE LendScan(_, _, _, _, _)
LendScan(es, i, leftSize, size, midPoint) ==
  IF i < 1 THEN 0
  ELSE LET sz == ES(es[i]) IN
       IF leftSize - sz < midPoint /\ size - leftSize >= MinBare THEN i
       ELSE LendScan(es, i - 1, leftSize - sz, size, midPoint)
LendToRight(l, r) ==
  IF l.k = "d"
  THEN LET size == SumES(l.e) + SumES(r.e)
           lc == LendScan(l.e, Len(l.e), SumES(l.e), size, (size + 1) \div 2)
       IN <<Data(SubSeqSafe(l.e, 1, lc)), Data(SubSeqSafe(l.e, lc + 1, Len(l.e)) \o r.e)>>
  ELSE LET all == l.c \o r.c  lc == Len(all) \div 2
       IN <<Meta(SubSeqSafe(all, 1, lc)), Meta(SubSeqSafe(all, lc + 1, Len(all)))>>
RECURSIVE BorrowScan(_, _, _, _, _)
BorrowScan(res, i, leftSize, size, midPoint) ==
  IF i > Len(res) THEN i - 1
  ELSE LET sz == ES(res[i]) IN
       IF leftSize + sz > midPoint THEN (IF size - leftSize - sz >= MinBare THEN i ELSE i - 1)
       ELSE BorrowScan(res, i + 1, leftSize + sz, size, midPoint)
BorrowFromRight(l, r) ==
  IF l.k = "d"
  THEN LET size == SumES(l.e) + SumES(r.e)
           mv == BorrowScan(r.e, 1, SumES(l.e), size, (size + 1) \div 2)
       IN <<Data(l.e \o SubSeqSafe(r.e, 1, mv)), Data(SubSeqSafe(r.e, mv + 1, Len(r.e)))>>
  ELSE LET all == l.c \o r.c  lc == Len(all) \div 2
       IN <<Meta(SubSeqSafe(all, 1, lc)), Meta(SubSeqSafe(all, lc + 1, Len(all)))>>
MergeNodes(l, r) == IF l.k = "d" THEN Data(l.e \o r.e) ELSE Meta(l.c \o r.c)
ReplaceAt(s, i, new) == SubSeqSafe(s, 1, i - 1) \o new \o SubSeqSafe(s, i + 1, Len(s))
Replace2(s, i, new) == SubSeqSafe(s, 1, i - 1) \o new \o SubSeqSafe(s, i + 2, Len(s))

\* MapMetaDataSlab.MergeOrRebalanceChildSlab
MergeOrRebalance(cs, ci) ==
  LET child == cs[ci]   need == UnderBy(child)
      hasL == ci > 1    hasR == ci < Len(cs)
      leftCan == hasL /\ CanLendToRight(cs[ci - 1], need)
      rightCan == hasR /\ CanLendToLeft(cs[ci + 1], need)
  IN IF leftCan \/ rightCan
     THEN IF ~leftCan THEN Replace2(cs, ci, BorrowFromRight(child, cs[ci + 1]))
          ELSE IF ~rightCan THEN Replace2(cs, ci - 1, LendToRight(cs[ci - 1], child))
          ELSE IF Size(cs[ci - 1]) > Size(cs[ci + 1]) THEN Replace2(cs, ci - 1, LendToRight(cs[ci - 1], child))
          ELSE Replace2(cs, ci, BorrowFromRight(child, cs[ci + 1]))
     ELSE IF ~hasL THEN Replace2(cs, ci, <<MergeNodes(child, cs[ci + 1])>>)
          ELSE IF ~hasR THEN Replace2(cs, ci - 1, <<MergeNodes(cs[ci - 1], child)>>)
          ELSE IF Size(cs[ci - 1]) < Size(cs[ci + 1]) THEN Replace2(cs, ci - 1, <<MergeNodes(cs[ci - 1], child)>>)
          ELSE Replace2(cs, ci, <<MergeNodes(child, cs[ci + 1])>>)

\* routing by first digest: the last child whose first digest is <= d (Set falls back to the first child)
RouteIdx(cs, d) == LET S == {i \in 1..Len(cs) : FirstKey(cs[i]) <= d} IN
                   IF S = {} THEN 0 ELSE CHOOSE i \in S : \A j \in S : j <= i
\* binary search as written in the Go code, over the same first digests
RECURSIVE BinRoute(_, _, _, _, _)
BinRoute(cs, i, j, ans, d) ==
  IF i >= j THEN ans
  ELSE LET h == (i + j) \div 2 IN
       IF FirstKey(cs[h + 1]) > d THEN BinRoute(cs, i, h, ans, d) ELSE BinRoute(cs, h + 1, j, h, d)
RoutingAgrees(cs, d) == BinRoute(cs, 0, Len(cs), -1, d) + 1 = RouteIdx(cs, d)

\* data slab: sorted unique digests
HasD(es, d) == \E i \in 1..Len(es) : es[i].d = d
PosD(es, d) == CHOOSE i \in 1..Len(es) : es[i].d = d
InsPos(es, d) == Cardinality({i \in 1..Len(es) : es[i].d < d})
DSet(es, x) == IF HasD(es, x.d) THEN [es EXCEPT ![PosD(es, x.d)] = x]
               ELSE SubSeqSafe(es, 1, InsPos(es, x.d)) \o <<x>> \o SubSeqSafe(es, InsPos(es, x.d) + 1, Len(es))
DRem(es, d) == SubSeqSafe(es, 1, PosD(es, d) - 1) \o SubSeqSafe(es, PosD(es, d) + 1, Len(es))

RECURSIVE NSet(_, _)
NSet(n, x) ==
  IF n.k = "d" THEN Data(DSet(n.e, x))
  ELSE LET r0 == RouteIdx(n.c, x.d)  ci == IF r0 = 0 THEN 1 ELSE r0
           nc == NSet(n.c[ci], x)
           cs == ReplaceAt(n.c, ci, <<nc>>)
       IN IF IsFull(nc) THEN Meta(ReplaceAt(n.c, ci, Split(nc)))
          ELSE IF IsUnder(nc) THEN Meta(MergeOrRebalance(cs, ci)) ELSE Meta(cs)
RECURSIVE NHas(_, _)
NHas(n, d) == IF n.k = "d" THEN HasD(n.e, d)
              ELSE LET ci == RouteIdx(n.c, d) IN IF ci = 0 THEN FALSE ELSE NHas(n.c[ci], d)
RECURSIVE NRemove(_, _)
NRemove(n, d) ==      \* precondition: NHas(n, d)
  IF n.k = "d" THEN Data(DRem(n.e, d))
  ELSE LET ci == RouteIdx(n.c, d)
           nc == NRemove(n.c[ci], d)
           cs == ReplaceAt(n.c, ci, <<nc>>)
       IN IF IsFull(nc) THEN Meta(ReplaceAt(n.c, ci, Split(nc)))
          ELSE IF IsUnder(nc) THEN Meta(MergeOrRebalance(cs, ci)) ELSE Meta(cs)
RootIsFull(n) == RootSize(n) > MaxT
SplitRoot(n) == Meta(Split(n))
Promote(n) == IF n.k = "m" /\ Len(n.c) = 1 THEN n.c[1] ELSE n
\* OrderedMap.set / remove: promotion BEFORE root split (the opposite order of arrays)
AfterRoot(r) == LET p == Promote(r) IN IF RootIsFull(p) THEN SplitRoot(p) ELSE p
TSet(t, x) == AfterRoot(NSet(t, x))
TRemove(t, d) == IF NHas(t, d) THEN AfterRoot(NRemove(t, d)) ELSE t
TPop(t) == EmptyTree

\* well-formedness of a model tree (design-level statement of C05 for maps)
RECURSIVE WFNode(_, _)
WFNode(n, isRoot) ==
  /\ (IF isRoot THEN RootSize(n) ELSE Size(n)) <= MaxT
  /\ isRoot \/ Size(n) >= MinT
  /\ n.k = "d" => \A i \in 1..Len(n.e) : n.e[i].sz <= MaxElem
  /\ n.k = "m" => /\ (isRoot => Len(n.c) >= 2) /\ Len(n.c) >= 1
                  /\ \A i \in 1..Len(n.c) : WFNode(n.c[i], FALSE)
RECURSIVE SameDepth(_)
SameDepth(n) == n.k = "d" \/ (\A i \in 1..Len(n.c) : SameDepth(n.c[i]) /\ Depth(n.c[i]) = Depth(n.c[1]))
SortedUnique(t) == LET f == Flatten(t) IN \A i \in 1..(Len(f) - 1) : f[i].d < f[i + 1].d
RECURSIVE Shape(_)
Shape(n) == IF n.k = "d" THEN [k |-> "d", e |-> [i \in 1..Len(n.e) |-> <<n.e[i].d, n.e[i].sz>>]]
            ELSE [k |-> "m", c |-> [i \in 1..Len(n.c) |-> Shape(n.c[i])]]
=============================================================================
