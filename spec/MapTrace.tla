------------------------------ MODULE MapTrace ------------------------------
(***************************************************************************)
(* Trace specification for the map engine: every public call on the real   *)
(* OrderedMap must be explained by the dictionary model (MapDict) and      *)
(* every observed slab forest must satisfy TreeInv.                        *)
(***************************************************************************)
EXTENDS MapDict, Json, TLC

CONSTANTS StrictA,    \* results and content must follow layer A (else the model adopts the observed content)
          CheckCat,   \* error categories are part of the verdict
          CheckOrder  \* enumeration order is part of the verdict (C13)

Trace == ndJsonDeserialize("trace.ndjson")
TraceT == Trace[1].cfg.T
INSTANCE TreeInv WITH T <- TraceT

VARIABLES l, dict, rid, typ, limit, committed, known, lcalls
tvars == <<l, dict, rid, typ, limit, committed, known, lcalls>>

Root(r) == r.roots[1]
Forest(r) == r.roots[1].F[1]

\* observed content -> dictionary entries in iteration order
ObsDict(r) == LET a == Root(r).abs  n == Len(a) \div 2 IN
  [i \in 1..n |-> [k |-> a[2 * i - 1].v, v |-> a[2 * i].v, d |-> Root(r).kds[i]]]
ObsPairs(r) == LET a == Root(r).abs IN {<<a[2 * i - 1].v, a[2 * i].v>> : i \in 1..(Len(a) \div 2)}
ObsKeys(r) == LET a == Root(r).abs IN [i \in 1..(Len(a) \div 2) |-> a[2 * i - 1].v]

\* ---- layer C, composed (MapFull = slab tree x collision groups): the tree predicted from the previous observation is compared
\* with the observed one as drift, never a verdict.  Only for table-driven digests (small integers: no rank compression).
TraceKSz == LET S == {i \in 1..Len(Trace) : Trace[i].k.sz > 0} IN IF S = {} THEN 5 ELSE Trace[CHOOSE i \in S : TRUE].k.sz
\* digest table seen in the previous record (resident keys) extended by the key of the current operation
DigTable(r, prev) ==
  LET a == Root(prev).abs  n == Len(a) \div 2
      ks == {a[2 * i - 1].v : i \in 1..n} \cup {r.k.id} IN
  [k \in ks |-> IF k = r.k.id /\ Len(r.kd) = 4 THEN r.kd
                 ELSE Root(prev).kds[CHOOSE i \in 1..n : a[2 * i - 1].v = k]]
\* (the collision limit plays no role here: drift is compared for accepted requests only)
MF(dv) == INSTANCE MapFull WITH T <- TraceT, KSzF <- TraceKSz, LimitF <- 255, digv <- dv
MTd(dv) == INSTANCE MapTree WITH Keys <- {}, DigSet <- {}, KSz <- TraceKSz, VSizes <- {}, Limit <- 255,
                                 MaxInlineElem <- MaxInlineMapElem(TraceT), dig <- dv, root <- <<>>
\* observed element / element list -> MapTree records (a value is represented by its stored size)
RECURSIVE ObsG(_), ObsEls(_)
ObsG(me) == IF me.t = "s" THEN [t |-> "s", key |-> me.k[1].v, v |-> me.v[1].sz]
            ELSE IF me.t = "g" THEN [t |-> "g", els |-> ObsEls(me.els[1])]
            ELSE [t |-> "x", els |-> ObsEls(me.x[1].els[1])]
ObsEls(els) == IF els.t = "h" THEN [t |-> "h", lvl |-> els.lvl, hk |-> els.hk, el |-> [i \in 1..Len(els.el) |-> ObsG(els.el[i])]]
               ELSE [t |-> "l", lvl |-> els.lvl, el |-> [i \in 1..Len(els.el) |-> ObsG(els.el[i])]]
RECURSIVE TreeOfF(_, _)
TreeOfF(n, dv) ==
  IF n.k = "md"
  THEN [k |-> "d", e |-> [i \in 1..Len(n.els[1].el) |->
                            LET g == ObsG(n.els[1].el[i]) IN [d |-> n.els[1].hk[i], sz |-> MTd(dv)!ElemSize(g), g |-> g]]]
  ELSE [k |-> "m", c |-> [i \in 1..Len(n.c) |-> TreeOfF(n.c[i], dv)]]
\* the observed shape with the sizes the real code reports
RECURSIVE ObsShape(_)
ObsShape(n) == IF n.k = "md" THEN [k |-> "d", e |-> [i \in 1..Len(n.els[1].el) |-> <<n.els[1].hk[i], n.els[1].el[i].sz>>]]
               ELSE [k |-> "m", c |-> [i \in 1..Len(n.c) |-> ObsShape(n.c[i])]]
RECURSIVE PlainMapForest(_)      \* only slabs of a map (no nested containers inside: their sizes are not modelled by layer C)
PlainMapForest(n) == n.k \in {"md", "mm"} /\ (n.k = "mm" => \A i \in 1..Len(n.c) : PlainMapForest(n.c[i]))
\* (arguments of recursive operators must be constant-level for SANY: the key and the value size are passed as bound variables)
LayerCAgrees(r, prev) ==
  LET dv == DigTable(r, prev)  t == TreeOfF(Forest(prev), dv)  obs == ObsShape(Forest(r)) IN
  \E kk \in {r.k.id}, vv \in {r.e.sz} :
    CASE r.ev = "MSet" -> MF(dv)!FShape(MF(dv)!FSet(t, kk, vv).t) = obs
      [] r.ev = "MRemove" -> MF(dv)!FShape(MF(dv)!FRemove(t, kk).t) = obs
      [] r.ev = "MPop" -> obs = [k |-> "d", e |-> <<>>]
      [] OTHER -> TRUE
Drifted(r) ==
  IF l = 1 \/ r.res.class # "ok" \/ Trace[l - 1].t # r.t \/ r.ev \notin {"MSet", "MRemove", "MPop"}
     \/ Len(r.kd) # 4 \/ r.kd[1] >= 1000000 \/ r.cfg.builtin \/ ~PlainMapForest(Forest(Trace[l - 1])) \/ ~PlainMapForest(Forest(r)) THEN 0
  ELSE IF LayerCAgrees(r, Trace[l - 1]) THEN 0 ELSE 1

Init == l = 1 /\ dict = <<>> /\ rid = 0 /\ typ = "" /\ limit = 255 /\ committed = <<>> /\ known = FALSE /\ lcalls = 0

ResOK(r, m) == /\ r.res.class = m.class
               /\ (CheckCat => r.res.cat = m.cat)
               /\ (m.class = "ok" => r.res.found = m.found /\ (m.found => r.res.v = m.v))

Step(r, m) == IF StrictA THEN ResOK(r, m.r) /\ dict' = m.s ELSE dict' = ObsDict(r)

RECURSIVE PopSeq(_)
RECURSIVE FlatKV(_)
FlatKV(s) == IF s = <<>> THEN <<>> ELSE <<Head(s).k, Head(s).v>> \o FlatKV(Tail(s))
CanonKV(D) == FlatKV(Canonical(D))
PopSeq(s) == IF s = <<>> THEN <<>> ELSE PopSeq(Tail(s)) \o <<Head(s).k, Head(s).v>>   \* reverse canonical, k then v

Next ==
  /\ l <= Len(Trace) /\ l' = l + 1
  /\ LET r == Trace[l] IN
     /\ IF r.ev \in {"Load", "Commit"} THEN lcalls' = r.st.calls ELSE UNCHANGED lcalls
     /\ IF r.ev \in {"Load", "Commit", "Crash"} THEN TRUE ELSE UNCHANGED <<committed, known>>
     /\ CASE r.ev = "Load" ->
            /\ dict' = ObsDict(r) /\ rid' = Root(r).rid /\ typ' = Root(r).ti /\ limit' = r.i
            /\ known' = r.known /\ committed' = (IF r.known THEN [i \in 1..(Len(r.cold[1].abs) \div 2) |-> [k |-> r.cold[1].abs[2 * i - 1].v, v |-> r.cold[1].abs[2 * i].v, d |-> r.cold[1].kds[i]]] ELSE <<>>)
       [] r.ev = "Commit" ->
            /\ UNCHANGED <<dict, rid, typ, limit>>
            /\ IF r.res.class = "ok" THEN committed' = dict /\ known' = TRUE
               ELSE committed' = committed /\ known' = FALSE
       [] r.ev = "DropCache" -> UNCHANGED <<dict, rid, typ, limit>>
       [] r.ev = "Crash" ->
            /\ UNCHANGED <<rid, typ, limit, committed, known>>
            /\ (StrictA /\ known => r.res.class = "ok")
            /\ dict' = (IF StrictA /\ known THEN committed ELSE ObsDict(r))
       [] r.ev = "MSet" -> Step(r, MSet(dict, r.k.id, r.kd, r.e.id, limit)) /\ UNCHANGED <<rid, typ, limit>>
       [] r.ev = "MGet" -> Step(r, MGet(dict, r.k.id)) /\ UNCHANGED <<rid, typ, limit>>
       [] r.ev = "MHas" -> Step(r, MHas(dict, r.k.id)) /\ UNCHANGED <<rid, typ, limit>>
       [] r.ev = "MRemove" ->
            /\ Step(r, MRem(dict, r.k.id)) /\ UNCHANGED <<rid, typ, limit>>
            /\ (StrictA /\ r.res.class = "ok" => r.res.kv = r.k.id)
       [] r.ev = "MPop" ->
            /\ (StrictA => /\ r.res.class = "ok" /\ Len(r.res.seq) = 2 * Len(dict)
                            /\ {<<r.res.seq[2 * i - 1], r.res.seq[2 * i]>> : i \in 1..Len(dict)} = Pairs(dict)
                            /\ (CheckOrder => r.res.seq = PopSeq(Canonical(dict))))      \* reverse canonical order: C13
            /\ dict' = (IF StrictA THEN <<>> ELSE ObsDict(r)) /\ UNCHANGED <<rid, typ, limit>>
       [] r.ev = "MSetType" ->
            /\ (StrictA => r.res.class = "ok")
            /\ typ' = (IF StrictA THEN "S" \o ToString(r.ti) ELSE Root(r).ti)
            /\ dict' = (IF StrictA THEN dict ELSE ObsDict(r)) /\ UNCHANGED <<rid, limit>>
       [] r.ev \in {"MIterProbe", "MPartialProbe", "MBatch", "MCopy", "MOtherDisposed"} ->
            /\ dict' = (IF StrictA THEN dict ELSE ObsDict(r)) /\ UNCHANGED <<rid, typ, limit>>
       [] r.ev = "MMutIter" ->      \* mutable iteration overwriting the value of the current key for the keys in mask
            /\ (StrictA => r.res.class = "ok" /\ r.probe.iters[1].ids = CanonKV(dict))
            /\ dict' = (IF StrictA THEN [i \in 1..Len(dict) |->
                                          IF \E k \in 1..Len(r.probe.mask) : r.probe.mask[k] = dict[i].k
                                          THEN [dict[i] EXCEPT !.v = r.probe.newids[CHOOSE k \in 1..Len(r.probe.mask) : r.probe.mask[k] = dict[i].k]]
                                          ELSE dict[i]]
                         ELSE ObsDict(r))
            /\ UNCHANGED <<rid, typ, limit>>
       [] OTHER -> FALSE
     /\ (Drifted(r) = 1 => PrintT(<<"DRIFT_AT", l, r.t, r.ev>>))   \* layer-C mismatch: reported, never a verdict

Spec == Init /\ [][Next]_tvars

Cur == Trace[l - 1]
ForestPairs(F) == LET es == MEntries(F) IN {<<es[i][1].v, es[i][2].v>> : i \in 1..Len(es)}
ForestKeys(F) == LET es == MEntries(F) IN [i \in 1..Len(es) |-> es[i][1].v]

\* C02 / C12: content, count, type and root identifier are those of the dictionary
RefinesDict == l > 1 =>
  /\ ObsPairs(Cur) = Pairs(dict)
  /\ ForestPairs(Forest(Cur)) = Pairs(dict)
  /\ Root(Cur).n = Len(dict) /\ Len(Root(Cur).abs) = 2 * Len(dict)
  /\ Root(Cur).rid = rid
  /\ Root(Cur).ti = typ
\* C13: enumeration is in canonical order (both through the API and along the slab chain)
CanonicalOrder == (l > 1 /\ CheckOrder) =>
  /\ ObsKeys(Cur) = CanonKeys(dict)
  /\ ForestKeys(Forest(Cur)) = CanonKeys(dict)
\* C05
WellFormed == l > 1 => MapWellFormed(Forest(Cur))
\* C06 (bookkeeping half)
SizesAgree == l > 1 => MapSizesAgree(Forest(Cur))
\* C09
NoLeak == l > 1 => Cur.st.stored = Cur.st.reach

ObsPairsOf(ro) == LET a == ro.abs IN {<<a[2 * i - 1].v, a[2 * i].v>> : i \in 1..(Len(a) \div 2)}
\* C03 / C08 / C15: a slab served from the read cache and not pending in the write set is what the ledger holds under its
\* identifier (its encoding equals the register): an in-place change of a cached slab that never reached the write set would be
\* skipped by the next commit and differ from what any other storage decodes from the ledger
CacheCoherent == l > 1 => Len(Cur.st.stale) = 0
NoLedgerWrite == l > 1 => Cur.st.calls = lcalls
TempNeverWritten == l > 1 => \A i \in 1..Len(Cur.calls) : Cur.calls[i].owner # 0
Durable == (l > 1 /\ Cur.ev = "Commit" /\ Cur.res.class = "ok") =>
  /\ Len(Cur.cold) = 1 /\ Cur.cold[1].kind = "M"
  /\ ObsPairsOf(Cur.cold[1]) = Pairs(dict) /\ ForestPairs(Cur.cold[1].F[1]) = Pairs(dict)
  /\ Cur.cold[1].n = Len(dict) /\ Cur.cold[1].ti = typ /\ Cur.cold[1].rid = rid
CrashRestores == (l > 1 /\ Cur.ev = "Crash" /\ known) => (Cur.res.class = "ok" /\ ObsPairs(Cur) = Pairs(committed))
ColdEqualsWarm == (l > 1 /\ Cur.ev = "Commit" /\ Cur.res.class = "ok") => Cur.cold[1].F = Root(Cur).F
ColdWellFormed == (l > 1 /\ Cur.ev = "Commit" /\ Cur.res.class = "ok") => MapWellFormed(Cur.cold[1].F[1])
CallLess(a, b) == a.owner < b.owner \/ (a.owner = b.owner /\ a.index < b.index)
DetOrder == (l > 1 /\ Cur.ev = "Commit" /\ Cur.mode = "det") =>
  \A i \in 1..(Len(Cur.calls) - 1) : CallLess(Cur.calls[i], Cur.calls[i + 1])
FailedCommitIsExternal == (l > 1 /\ Cur.ev = "Commit" /\ Cur.res.class # "ok") => Cur.res.cat = "external"

\* C13
RECURSIVE IsSubPairs(_, _)
IsSubPairs(x, y) == IF x = <<>> THEN TRUE ELSE IF y = <<>> \/ Len(x) < 2 THEN FALSE
                    ELSE IF x[1] = y[1] /\ x[2] = y[2] THEN IsSubPairs(SubSeq(x, 3, Len(x)), SubSeq(y, 3, Len(y)))
                    ELSE IsSubPairs(x, SubSeq(y, 3, Len(y)))
IterOK == (l > 1 /\ Cur.ev = "MIterProbe") =>
  /\ \A i \in 1..Len(Cur.probe.iters) : Cur.probe.iters[i].class = "ok" /\ Cur.probe.iters[i].ids = CanonKV(dict)
  /\ \A i \in 1..Len(Cur.probe.ranges) :
       LET q == Cur.probe.ranges[i] IN
       q.class = "ok" /\ q.ids = (IF q.s = 1 THEN CanonKeys(dict) ELSE CanonVals(dict))
PartialOK == (l > 1 /\ Cur.ev = "MPartialProbe") =>
  \A i \in 1..Len(Cur.probe.partial) :
    LET q == Cur.probe.partial[i] IN q.class = "ok" /\ IsSubPairs(q.ids, CanonKV(dict)) /\ (q.s = q.e => q.ids = CanonKV(dict))
\* C17
OtherPairs(b) == LET a == b.abs IN {<<a[2 * i - 1].v, a[2 * i].v>> : i \in 1..(Len(a) \div 2)}
OtherKeys(b) == LET a == b.abs IN [i \in 1..(Len(a) \div 2) |-> a[2 * i - 1].v]
BatchOK == (l > 1 /\ Cur.ev = "MBatch") =>
  /\ Cur.res.class = "ok" /\ Len(Cur.probe.other) = 1
  /\ LET b == Cur.probe.other[1] IN
     /\ OtherPairs(b) = Pairs(dict) /\ OtherKeys(b) = ObsKeys(Cur) /\ b.n = Len(dict)      \* the source's content, in the source's order
     /\ b.lk = Len(dict)                   \* every entry is found by a lookup in the result (not only enumerated)
     /\ ForestPairs(b.F[1]) = Pairs(dict)
     /\ MapWellFormed(b.F[1]) /\ MapSizesAgree(b.F[1])
     /\ b.rid # rid /\ b.ti = typ /\ b.F[1].seed = Forest(Cur).seed
OtherWellFormed == (l > 1 /\ Len(Cur.probe.other) = 1) => MapWellFormed(Cur.probe.other[1].F[1])
OtherSizesAgree == (l > 1 /\ Len(Cur.probe.other) = 1) => MapSizesAgree(Cur.probe.other[1].F[1])
RECURSIVE NoExternal(_)
NoExternal(E) == \A i \in 1..Len(E.el) : E.el[i].t # "x" /\ (E.el[i].t = "g" => NoExternal(E.el[i].els[1]))
Copyable(F) == /\ F.k = "md" /\ NoExternal(F.els[1])
               /\ LET es == MEntries(F) IN \A i \in 1..Len(es) : es[i][1].c = "s" /\ es[i][2].c = "s"
CopyOK == (l > 1 /\ Cur.ev = "MCopy") =>
  /\ Cur.probe.can = Copyable(Forest(Cur))
  /\ (Cur.probe.can => /\ Cur.res.class = "ok" /\ Len(Cur.probe.other) = 1
                        /\ LET b == Cur.probe.other[1] IN
                           /\ OtherPairs(b) = Pairs(dict) /\ ForestPairs(b.F[1]) = Pairs(dict) /\ b.lk = Len(dict)
                           /\ MapWellFormed(b.F[1]) /\ MapSizesAgree(b.F[1]) /\ b.rid # rid /\ b.ti = typ /\ ~b.F[1].inl)
  /\ (~Cur.probe.can => Cur.res.class # "ok")
SourceUnaffected == (l > 1 /\ Cur.ev \in {"MBatch", "MCopy", "MOtherDisposed"}) =>
  /\ ObsPairs(Cur) = Pairs(dict) /\ ForestPairs(Forest(Cur)) = Pairs(dict)
  /\ MapWellFormed(Forest(Cur)) /\ MapSizesAgree(Forest(Cur))
  /\ (Cur.ev = "MOtherDisposed" => Cur.st.stored = Cur.st.reach)
\* C18
Rejected(r) == r.res.class \notin {"ok"} /\ r.ev \in {"MSet", "MGet", "MHas", "MRemove"}
NoTraceOfRejected == (l > 2 /\ Rejected(Cur) /\ Trace[l - 2].t = Cur.t) =>
  /\ Root(Cur).fsum = Root(Trace[l - 2]).fsum
  /\ Cur.st.deltas = Trace[l - 2].st.deltas /\ Cur.st.stored = Trace[l - 2].st.stored /\ Cur.st.calls = Trace[l - 2].st.calls

\* C07: re-encoding the decoded register gives the identical bytes; header flags are truthful
CommitOK(r) == r.ev = "Commit" /\ r.res.class = "ok"
ColdSlabNodes(r) == UNION {SlabNodes(r.cold[i].F[1]) : i \in 1..Len(r.cold)}
ReencodesExactly == (l > 1 /\ CommitOK(Cur)) => \A i \in 1..Len(Cur.regs) : Cur.regs[i].reenc
FlagsTruthful == (l > 1 /\ CommitOK(Cur)) => \A i \in 1..Len(Cur.regs) : FlagsOf(Cur.regs[i], ColdSlabNodes(Cur))
\* C06: the size a slab reports equals the bytes written
EncodedLenRelation == (l > 1 /\ CommitOK(Cur)) => \A i \in 1..Len(Cur.regs) : SizeOf(Cur.regs[i], ColdSlabNodes(Cur))
\* C09 on the ledger: after a successful commit the registers are exactly the slabs reachable from the roots held by the caller
\* (nothing the history released is left behind in the ledger, nothing reachable is missing from it)
\* C09 on the registers alone: what a brand-new storage sees after the commit - every reference resolves, every register decodes,
\* and the registers are exactly the slabs reachable from the roots
ColdResolves == (l > 1 /\ CommitOK(Cur)) =>
  /\ Cur.coldbad = 0
  /\ {Cur.coldreach[i] : i \in 1..Len(Cur.coldreach)} = {Cur.regs[i].id : i \in 1..Len(Cur.regs)}
NoLeakInLedger == (l > 1 /\ CommitOK(Cur)) => {Cur.regs[i].id : i \in 1..Len(Cur.regs)} = {Cur.st.reach[i] : i \in 1..Len(Cur.st.reach)}

TraceAccepted ==
  LET d == TLCGet("stats").diameter IN
  IF d - 1 = Len(Trace) THEN TRUE
  ELSE Print(<<"REJECTED_AT", d, Trace[d].t, Trace[d].ev>>, FALSE)
=============================================================================
