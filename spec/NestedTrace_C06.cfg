SPECIFICATION Spec
CONSTANTS
  StrictA = FALSE
INVARIANTS EncodedLenRelation AllValid
POSTCONDITION TraceAccepted
CHECK_DEADLOCK FALSE
