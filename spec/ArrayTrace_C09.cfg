SPECIFICATION Spec
CONSTANTS
  T <- TraceT
  StrictA = FALSE
  CheckCat = FALSE
INVARIANTS NoLeak
POSTCONDITION TraceAccepted
CHECK_DEADLOCK FALSE
