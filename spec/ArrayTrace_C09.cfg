SPECIFICATION Spec
CONSTANTS
  T <- TraceT
  StrictA = FALSE
  CheckCat = FALSE
INVARIANTS NoLeak NoLeakInLedger ColdResolves
POSTCONDITION TraceAccepted
CHECK_DEADLOCK FALSE
