SPECIFICATION Spec
CONSTANTS
  T <- TraceT
  StrictA = FALSE
  CheckCat = FALSE
INVARIANTS NoLeak NoLeakInLedger
POSTCONDITION TraceAccepted
CHECK_DEADLOCK FALSE
