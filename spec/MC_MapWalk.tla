----------------------------- MODULE MC_MapWalk -----------------------------
(* Walk generator for the map engine: the dictionary model (layer A) alone,    *)
(* over many keys with a fixed digest assignment, simulated by TLC in          *)
(* grow / churn / shrink phases.  Each walk prints its history for replay      *)
(* into the real OrderedMap (where slabs split, merge and promote).            *)
EXTENDS MapDict, Json, TLC

CONSTANTS Keys, KSz, VSizes, Limit,
          DigMode,     \* "spread": distinct first-level digests; "clustered": tiny alphabets per level
          Persist,     \* sprinkle commit / drop cache / crash events
          PersistEvery, \* ... only at every n-th step (TLC's simulator picks an ACTION uniformly: six persistence actions against two
                       \* growth actions would otherwise spend three steps in four on persistence events)
          AllowPop,    \* bulk pops in the churn phase
          GrowUntil, ShrinkFrom, EmitDepth,
          FanShrink,   \* inside the fan window only overwrites and removals of present keys are candidates (the walk drifts downwards)
          FanFrom      \* print the history at every length FanFrom..EmitDepth: TLC evaluates the printing invariant on EVERY candidate
                       \* successor, so this yields the complete one-step closure of each state the walk passes through in that window

VARIABLES dict, nextId, hist, cdict, hasc
wvars == <<dict, nextId, hist, cdict, hasc>>

Spread(k)    == <<(k * 37) % 1009, (k * 11) % 7, k % 3, k % 2>>
Clustered(k) == <<k % 3, (k \div 3) % 2, (k \div 6) % 2, (k \div 12) % 2>>
\* "paired": keys 2j and 2j+1 share the first-level digest and differ at the second level (collision groups of exactly two)
Paired(k)    == <<((k \div 2) * 37) % 1009, k % 2, k % 3, k % 2>>
\* "mixed": one key in three belongs to such a pair, the others have first-level digests of their own (many slabs AND collision groups)
Mixed(k)     == IF k % 6 < 2 THEN <<2 * (k - (k % 6)) + 1, k % 6, 0, 0>> ELSE <<2 * k, 0, 0, 0>>
Dig(k) == IF DigMode = "spread" THEN Spread(k) ELSE IF DigMode = "paired" THEN Paired(k)
          ELSE IF DigMode = "mixed" THEN Mixed(k) ELSE Clustered(k)
KeysSeq == [k \in 1..Cardinality(Keys) |-> Dig(k)]

Init == dict = <<>> /\ nextId = 1 /\ hist = << <<"dig">> \o KeysSeq >> /\ cdict = <<>> /\ hasc = FALSE

SetK(k, vsz) ==
  LET vid == nextId * 1000 + vsz IN
  /\ dict' = MSet(dict, k, Dig(k), vid, Limit).s
  /\ nextId' = nextId + 1
  /\ hist' = Append(hist, <<"mset", k, KSz, vid, vsz>>) /\ UNCHANGED <<cdict, hasc>>
RemoveK(k) ==
  /\ dict' = MRem(dict, k).s /\ UNCHANGED <<nextId, cdict, hasc>>
  /\ hist' = Append(hist, <<"mrem", k, KSz>>)
GetK(k) == UNCHANGED <<dict, nextId, cdict, hasc>> /\ hist' = Append(hist, <<"mget", k, KSz>>)
HasK(k) == UNCHANGED <<dict, nextId, cdict, hasc>> /\ hist' = Append(hist, <<"mhas", k, KSz>>)

Growing == Len(hist) <= GrowUntil
Shrinking == Len(hist) > ShrinkFrom
PStep == PersistEvery <= 1 \/ Len(hist) % PersistEvery = 0
Commit(md, w) == Persist /\ PStep /\ cdict' = dict /\ hasc' = TRUE /\ UNCHANGED <<dict, nextId>> /\ hist' = Append(hist, <<"commit", md, w, 0>>)
DropCache == Persist /\ PStep /\ UNCHANGED <<dict, nextId, cdict, hasc>> /\ hist' = Append(hist, <<"dropcache">>)
Crash == Persist /\ PStep /\ ~Growing /\ hasc /\ dict' = cdict /\ UNCHANGED <<nextId, cdict, hasc>> /\ hist' = Append(hist, <<"crash">>)
PopAll == AllowPop /\ Len(dict) > 0 /\ Len(hist) % 11 = 0 /\ dict' = <<>> /\ UNCHANGED <<nextId, cdict, hasc>> /\ hist' = Append(hist, <<"mpop">>)
Present == {k \in Keys : HasKey(dict, k)}
\* Inside a fan window every insert, overwrite and removal is ONE action (a single existential over a state-dependent set), because
\* TLC's simulator first picks an action and then generates the successors of that action only: this way all candidates are generated
\* (and printed by EmitWalk) at every step of the window.
InFan == FanFrom < EmitDepth /\ Len(hist) > FanFrom
FanNext == \E c \in ({"s"} \X (IF FanShrink THEN Present ELSE Keys) \X VSizes) \cup ({"r"} \X Present \X {0}) :
             IF c[1] = "s" THEN SetK(c[2], c[3]) ELSE RemoveK(c[2])
Next == IF InFan THEN FanNext ELSE
        \/ ~Shrinking /\ \E k \in Keys, v \in VSizes : SetK(k, v)
        \/ Growing /\ \E k \in Keys \ Present, v \in VSizes : SetK(k, v)       \* bias towards new keys
        \/ Shrinking /\ \E k \in Present, v \in VSizes : SetK(k, v)
        \/ Shrinking /\ Present = {} /\ \E k \in Keys, v \in VSizes : SetK(k, v)   \* never deadlock before EmitDepth
        \/ ~Growing /\ \E k \in (IF Shrinking THEN Present ELSE Keys) : RemoveK(k)
        \/ ~Growing /\ ~Shrinking /\ \E k \in Keys : GetK(k) \/ HasK(k)
NextP == Next \/ (~Growing /\ ~Shrinking /\ PopAll) \/ (\E md \in {"det", "nondet"}, w \in {1, 4} : Commit(md, w)) \/ DropCache \/ Crash
Spec == Init /\ [][NextP]_wvars
EmitWalk == (EmitDepth > 0 /\ Len(hist) >= FanFrom + 1 /\ Len(hist) <= EmitDepth + 1) => PrintT(ToJson(hist))
=============================================================================
