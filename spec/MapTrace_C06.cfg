SPECIFICATION Spec
CONSTANTS
  StrictA = FALSE
  CheckCat = FALSE
  CheckOrder = FALSE
INVARIANTS SizesAgree OtherSizesAgree EncodedLenRelation
POSTCONDITION TraceAccepted
CHECK_DEADLOCK FALSE
