SPECIFICATION Spec
CONSTANTS
  StrictA = FALSE
  CheckCat = FALSE
  CheckOrder = FALSE
INVARIANTS SizesAgree
POSTCONDITION TraceAccepted
CHECK_DEADLOCK FALSE
