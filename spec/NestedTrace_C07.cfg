SPECIFICATION Spec
CONSTANTS
  StrictA = FALSE
INVARIANTS Persisted ReencodesExactly FlagsTruthful
POSTCONDITION TraceAccepted
CHECK_DEADLOCK FALSE
