----------------------------- MODULE NestedTrace -----------------------------
(***************************************************************************)
(* Trace specification for nested containers (C09, C10, C11).  Layer A is  *)
(* a forest of abstract values: a scalar [c "s", w, v id], an array        *)
(* [c "A", w, v valueid, sub <<elements>>] or a map [c "M", w, v, sub      *)
(* <<k1, v1, k2, v2, ...>>].  Roots are the containers held by the caller: *)
(* live top-level containers and detached ones it kept.  A mutation        *)
(* through a handle to container X changes X only; everything read through *)
(* any root must expand to the model forest after every step.              *)
(***************************************************************************)
EXTENDS Integers, Sequences, FiniteSets, Json, TLC

CONSTANTS StrictA     \* results and content must follow layer A (else the model adopts the observed forest)

Trace == ndJsonDeserialize("trace.ndjson")
TraceT == Trace[1].cfg.T
INSTANCE TreeInv WITH T <- TraceT

VARIABLES l, forest, committed, known, lcalls
tvars == <<l, forest, committed, known, lcalls>>

Scalar(e) == [c |-> "s", w |-> e.w, v |-> e.id, ti |-> "", sub |-> <<>>]
ObsRoot(ro) == [c |-> ro.kind, w |-> 0, v |-> ro.rid, ti |-> ro.ti, sub |-> ro.abs]
ObsForest(rs) == [i \in 1..Len(rs) |-> ObsRoot(rs[i])]

\* order-insensitive normal form: maps become sets of <<key, value>>
RECURSIVE Canon(_)
Canon(x) ==
  IF x.c = "A" THEN [c |-> "A", w |-> x.w, v |-> x.v, ti |-> x.ti, sub |-> [i \in 1..Len(x.sub) |-> Canon(x.sub[i])]]
  ELSE IF x.c = "M" THEN [c |-> "M", w |-> x.w, v |-> x.v, ti |-> x.ti,
                          sub |-> {<<Canon(x.sub[2 * i - 1]), Canon(x.sub[2 * i])>> : i \in 1..(Len(x.sub) \div 2)}]
  ELSE [c |-> x.c, w |-> x.w, v |-> x.v, ti |-> "", sub |-> <<>>]
CanonForest(f) == [i \in 1..Len(f) |-> Canon(f[i])]

IsC(x) == x.c \in {"A", "M"}
\* the sub-elements of container vid inside value x (<<>> if absent) and replacement
RECURSIVE Has(_, _), SubOf(_, _), Repl(_, _, _), ReplTi(_, _, _)
ReplTi(x, vid, ti) == IF ~IsC(x) THEN x
                      ELSE IF x.v = vid THEN [x EXCEPT !.ti = ti]
                      ELSE [x EXCEPT !.sub = [i \in 1..Len(x.sub) |-> ReplTi(x.sub[i], vid, ti)]]
Has(x, vid) == IsC(x) /\ (x.v = vid \/ \E i \in 1..Len(x.sub) : Has(x.sub[i], vid))
SubOf(x, vid) == IF x.v = vid /\ IsC(x) THEN x.sub
                 ELSE LET i == CHOOSE j \in 1..Len(x.sub) : Has(x.sub[j], vid) IN SubOf(x.sub[i], vid)
Repl(x, vid, ns) == IF ~IsC(x) THEN x
                    ELSE IF x.v = vid THEN [x EXCEPT !.sub = ns]
                    ELSE [x EXCEPT !.sub = [i \in 1..Len(x.sub) |-> Repl(x.sub[i], vid, ns)]]
RECURSIVE KindIn(_, _)
KindIn(x, vid) == IF x.v = vid /\ IsC(x) THEN x.c
                  ELSE LET i == CHOOSE j \in 1..Len(x.sub) : Has(x.sub[j], vid) IN KindIn(x.sub[i], vid)
RootOf(f, vid) == CHOOSE i \in 1..Len(f) : Has(f[i], vid)
Known(f, vid) == \E i \in 1..Len(f) : Has(f[i], vid)
FSub(f, vid) == SubOf(f[RootOf(f, vid)], vid)
FRepl(f, vid, ns) == [f EXCEPT ![RootOf(f, vid)] = Repl(@, vid, ns)]
KindOf(f, vid) == KindIn(f[RootOf(f, vid)], vid)
DropRoot(f, i) == [j \in 1..(Len(f) - 1) |-> IF j < i THEN f[j] ELSE f[j + 1]]

InsAt(s, i, x) == SubSeq(s, 1, i) \o <<x>> \o SubSeq(s, i + 1, Len(s))      \* 0-based
RemAt(s, i) == SubSeq(s, 1, i) \o SubSeq(s, i + 2, Len(s))
KeyPos(sub, kid) == IF \E j \in 1..(Len(sub) \div 2) : sub[2 * j - 1].v = kid
                    THEN 2 * (CHOOSE j \in 1..(Len(sub) \div 2) : sub[2 * j - 1].v = kid) - 1 ELSE 0

\* the value an op inserts, and the forest after taking it (attaching a detached root removes it from the roots)
NewElem(f, r) ==
  IF r.e.new # "" THEN [c |-> r.e.new, w |-> r.e.w, v |-> r.e.vid, ti |-> r.e.ti, sub |-> <<>>]
  ELSE IF r.e.ref # "" THEN LET i == CHOOSE j \in 1..Len(f) : f[j].v = r.e.vid IN [f[i] EXCEPT !.w = r.e.w]
  ELSE Scalar(r.e)
Taken(f, r) == IF r.e.ref # "" THEN DropRoot(f, CHOOSE j \in 1..Len(f) : f[j].v = r.e.vid) ELSE f
\* an element handed back: kept containers become new roots
HandBack(f, x, r) == IF IsC(x) /\ r.keep THEN Append(f, [x EXCEPT !.w = 0]) ELSE f
TokenOK(r, x) == r.res.v = x.v

Init == l = 1 /\ forest = <<>> /\ committed = <<>> /\ known = FALSE /\ lcalls = 0

Model(r) ==     \* [f |-> new forest, ok |-> the logged result is the one layer A predicts]
  LET f0 == forest  hv == r.hv IN
  CASE r.ev = "NIns" ->
         LET x == NewElem(f0, r)  f1 == Taken(f0, r)  s == FSub(f1, hv)
             i == IF r.op = "n.app" THEN Len(s) ELSE r.i IN
         [f |-> FRepl(f1, hv, InsAt(s, i, x)), ok |-> r.res.class = "ok"]
    [] r.ev = "NSet" ->
         LET x == NewElem(f0, r)  f1 == Taken(f0, r)  s == FSub(f1, hv)  old == s[r.i + 1] IN
         [f |-> HandBack(FRepl(f1, hv, [s EXCEPT ![r.i + 1] = x]), old, r), ok |-> r.res.class = "ok" /\ TokenOK(r, old)]
    [] r.ev = "NRem" ->
         LET s == FSub(f0, hv)  old == s[r.i + 1] IN
         [f |-> HandBack(FRepl(f0, hv, RemAt(s, r.i)), old, r), ok |-> r.res.class = "ok" /\ TokenOK(r, old)]
    [] r.ev = "NGet" ->
         [f |-> f0, ok |-> r.res.class = "ok" /\ TokenOK(r, FSub(f0, hv)[r.i + 1])]
    [] r.ev = "NMSet" ->
         LET x == NewElem(f0, r)  f1 == Taken(f0, r)  s == FSub(f1, hv)  p == KeyPos(s, r.k.id) IN
         IF p = 0 THEN [f |-> FRepl(f1, hv, s \o <<Scalar(r.k), x>>), ok |-> r.res.class = "ok" /\ ~r.res.found]
         ELSE [f |-> HandBack(FRepl(f1, hv, [s EXCEPT ![p + 1] = x]), s[p + 1], r),
               ok |-> r.res.class = "ok" /\ r.res.found /\ TokenOK(r, s[p + 1])]
    [] r.ev = "NMRem" ->
         LET s == FSub(f0, hv)  p == KeyPos(s, r.k.id) IN
         IF p = 0 THEN [f |-> f0, ok |-> r.res.class = "KeyNotFound"]
         ELSE [f |-> HandBack(FRepl(f0, hv, SubSeq(s, 1, p - 1) \o SubSeq(s, p + 2, Len(s))), s[p + 1], r),
               ok |-> r.res.class = "ok" /\ TokenOK(r, s[p + 1]) /\ r.res.kv = r.k.id]
    [] r.ev = "NMGet" ->
         LET s == FSub(f0, hv)  p == KeyPos(s, r.k.id) IN
         IF p = 0 THEN [f |-> f0, ok |-> r.res.class = "KeyNotFound"]
         ELSE [f |-> f0, ok |-> r.res.class = "ok" /\ TokenOK(r, s[p + 1])]
    [] r.ev = "NPop" ->
         LET s == FSub(f0, hv) IN
         [f |-> FRepl(f0, hv, <<>>), ok |-> r.res.class = "ok" /\ Len(r.res.seq) = Len(s)
                                           /\ {r.res.seq[i] : i \in 1..Len(s)} = {s[i].v : i \in 1..Len(s)}]
    [] r.ev = "NSetType" ->     \* changes the type of that container only
         [f |-> [f0 EXCEPT ![RootOf(f0, hv)] = ReplTi(@, hv, IF r.ti >= 100 THEN "Ccomposite(" \o ToString(r.ti) \o ")" ELSE "S" \o ToString(r.ti))], ok |-> r.res.class = "ok"]
    [] r.ev = "NIter" ->      \* C13: mutable iteration yields every element once (arrays: in index order)
         LET s == FSub(f0, hv) IN
         [f |-> f0, ok |-> r.res.class = "ok" /\ Len(r.res.seq) = Len(s)
                          /\ IF FSub(f0, hv) = <<>> \/ KindOf(f0, hv) = "A" THEN r.res.seq = [i \in 1..Len(s) |-> s[i].v]
                             ELSE {<<r.res.seq[2 * i - 1], r.res.seq[2 * i]>> : i \in 1..(Len(s) \div 2)} =
                                  {<<s[2 * i - 1].v, s[2 * i].v>> : i \in 1..(Len(s) \div 2)}]
    [] r.ev = "NIterMut" ->   \* C13 / C10: every element yielded exactly once although every child array met was mutated (and
                              \* possibly moved out of the parent's slab) inside the callback; each child got exactly its element
         LET s == FSub(f0, hv)
             RECURSIVE App(_, _)
             App(f, i) == IF i > Len(r.pairs) THEN f
                          ELSE LET cv == r.pairs[i][1] IN
                               App(FRepl(f, cv, FSub(f, cv) \o <<[c |-> "s", w |-> 0, v |-> r.pairs[i][2], ti |-> "", sub |-> <<>>]>>), i + 1) IN
         [f |-> App(f0, 1),
          ok |-> r.res.class = "ok" /\ Len(r.res.seq) = Len(s)
                 /\ IF KindOf(f0, hv) = "A" THEN r.res.seq = [i \in 1..Len(s) |-> s[i].v]
                    ELSE {<<r.res.seq[2 * i - 1], r.res.seq[2 * i]>> : i \in 1..(Len(s) \div 2)} =
                         {<<s[2 * i - 1].v, s[2 * i].v>> : i \in 1..(Len(s) \div 2)}]
    [] r.ev = "NRej" ->      \* C18: out-of-range index / absent key: the named error with the caller-mistake category, nothing changes
         [f |-> f0, ok |-> IF KindOf(f0, hv) = "A" THEN r.res.class = "IndexOutOfBounds" /\ r.res.cat = "user"
                           ELSE r.res.class = "KeyNotFound" /\ r.res.cat = "user"]
    [] OTHER -> [f |-> f0, ok |-> FALSE]

Next ==
  /\ l <= Len(Trace) /\ l' = l + 1
  /\ LET r == Trace[l] IN
     /\ IF r.ev \in {"Load", "Commit"} THEN lcalls' = r.st.calls ELSE UNCHANGED lcalls
     /\ CASE r.ev = "Load" -> forest' = ObsForest(r.roots) /\ known' = FALSE /\ committed' = <<>>
          [] r.ev = "Commit" -> /\ UNCHANGED forest
                                /\ IF r.res.class = "ok" THEN committed' = forest /\ known' = TRUE
                                   ELSE committed' = committed /\ known' = FALSE
          [] r.ev = "DropCache" -> UNCHANGED <<forest, committed, known>>
          [] r.ev = "Crash" -> /\ UNCHANGED <<committed, known>>
                               /\ (StrictA /\ known => r.res.class = "ok")
                               /\ forest' = (IF StrictA /\ known THEN committed ELSE ObsForest(r.roots))
          [] OTHER -> /\ UNCHANGED <<committed, known>>
                      /\ IF StrictA /\ Known(forest, r.hv)
                         THEN LET m == Model(r) IN m.ok /\ forest' = m.f
                         ELSE IF StrictA THEN FALSE ELSE forest' = ObsForest(r.roots)

Spec == Init /\ [][Next]_tvars

Cur == Trace[l - 1]
\* C10 / C11: reading through every root expands to the model forest
ReadsThrough == l > 1 => CanonForest(ObsForest(Cur.roots)) = CanonForest(forest)
\* C10: persisted by the next commit (a brand-new storage reads the same forest from the registers alone)
Persisted == (l > 1 /\ Cur.ev = "Commit" /\ Cur.res.class = "ok") =>
                CanonForest(ObsForest(Cur.cold)) = CanonForest(forest)
CrashRestores == (l > 1 /\ Cur.ev = "Crash" /\ known) => CanonForest(ObsForest(Cur.roots)) = CanonForest(committed)
\* C10: every ancestor (and every container at any depth) stays structurally valid; inline exactly when it fits
AllValid == l > 1 => \A i \in 1..Len(Cur.roots) : ForestWellFormed(Cur.roots[i].F[1])
InlineRule == l > 1 => \A i \in 1..Len(Cur.roots) : InlineIffFits(Cur.roots[i].F[1])
\* C11: a mutation through a handle to a container of one root leaves every other root's slabs untouched
OtherRootsUntouched ==
  (l > 2 /\ Cur.ev \in {"NIns", "NSet", "NRem", "NMSet", "NMRem", "NPop", "NSetType"} /\ Trace[l - 2].t = Cur.t /\ Cur.e.ref = "") =>
    LET prev == Trace[l - 2] IN
    \A i \in 1..Len(prev.roots) :
      (~Has(ObsRoot(prev.roots[i]), Cur.hv)) =>
         \E j \in 1..Len(Cur.roots) : Cur.roots[j].rid = prev.roots[i].rid /\ Cur.roots[j].fsum = prev.roots[i].fsum
\* C11: a detached container kept by the caller is an independently stored value
RootsStandalone == l > 1 => \A i \in 1..Len(Cur.roots) : ~Cur.roots[i].F[1].inl /\ Cur.roots[i].F[1].root
\* C18: a rejected request leaves the container, its ancestors, every other root and the pending write set exactly as they were
NoTraceOfRejected == (l > 2 /\ Cur.ev = "NRej" /\ Trace[l - 2].t = Cur.t) =>
  LET prev == Trace[l - 2] IN
  /\ Len(Cur.roots) = Len(prev.roots)
  /\ \A i \in 1..Len(prev.roots) : Cur.roots[i].rid = prev.roots[i].rid /\ Cur.roots[i].fsum = prev.roots[i].fsum
  /\ Cur.st.stored = prev.st.stored /\ Cur.st.calls = prev.st.calls
  \* (a container created by the caller as the value of the request and released after the rejection leaves its own entry in the write set)
  /\ (Cur.e.new = "" => Cur.st.deltas = prev.st.deltas /\ Cur.st.dsum = prev.st.dsum)
\* C09
NoLeak == l > 1 => Cur.st.stored = Cur.st.reach
\* C03 / C08 / C15: a slab served from the read cache and not pending in the write set is what the ledger holds under its
\* identifier (its encoding equals the register): an in-place change of a cached slab that never reached the write set would be
\* skipped by the next commit and differ from what any other storage decodes from the ledger
CacheCoherent == l > 1 => Len(Cur.st.stale) = 0
NoLedgerWrite == l > 1 => Cur.st.calls = lcalls

\* C07: re-encoding the decoded register gives the identical bytes; header flags are truthful
CommitOK(r) == r.ev = "Commit" /\ r.res.class = "ok"
ColdSlabNodes(r) == UNION {SlabNodes(r.cold[i].F[1]) : i \in 1..Len(r.cold)}
ReencodesExactly == (l > 1 /\ CommitOK(Cur)) => \A i \in 1..Len(Cur.regs) : Cur.regs[i].reenc
FlagsTruthful == (l > 1 /\ CommitOK(Cur)) => \A i \in 1..Len(Cur.regs) : FlagsOf(Cur.regs[i], ColdSlabNodes(Cur))
\* C06: the size a slab reports equals the bytes written
EncodedLenRelation == (l > 1 /\ CommitOK(Cur)) => \A i \in 1..Len(Cur.regs) : SizeOf(Cur.regs[i], ColdSlabNodes(Cur))
\* C09 on the ledger: after a successful commit the registers are exactly the slabs reachable from the roots held by the caller
\* (nothing the history released is left behind in the ledger, nothing reachable is missing from it)
\* C09 on the registers alone: what a brand-new storage sees after the commit - every reference resolves, every register decodes,
\* and the registers are exactly the slabs reachable from the roots
ColdResolves == (l > 1 /\ CommitOK(Cur)) =>
  /\ Cur.coldbad = 0
  /\ {Cur.coldreach[i] : i \in 1..Len(Cur.coldreach)} = {Cur.regs[i].id : i \in 1..Len(Cur.regs)}
NoLeakInLedger == (l > 1 /\ CommitOK(Cur)) => {Cur.regs[i].id : i \in 1..Len(Cur.regs)} = {Cur.st.reach[i] : i \in 1..Len(Cur.st.reach)}

TraceAccepted ==
  LET d == TLCGet("stats").diameter IN
  IF d - 1 = Len(Trace) THEN TRUE
  ELSE Print(<<"REJECTED_AT", d, Trace[d].t, Trace[d].ev>>, FALSE)
=============================================================================
