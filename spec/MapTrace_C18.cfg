SPECIFICATION Spec
CONSTANTS
  StrictA = TRUE
  CheckCat = TRUE
  CheckOrder = FALSE
INVARIANTS RefinesDict NoTraceOfRejected
POSTCONDITION TraceAccepted
CHECK_DEADLOCK FALSE
