SPECIFICATION Spec
CONSTANTS
  StrictA = TRUE
  CheckCat = TRUE
  CheckOrder = FALSE
INVARIANTS RefinesDict
POSTCONDITION TraceAccepted
CHECK_DEADLOCK FALSE
