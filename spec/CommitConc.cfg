SPECIFICATION Spec
CONSTANTS
  W = 2
  NJobs = 3
  Cap = 3
  Mode = "relaxed"
  EncErr = 0
  FailCall = 1
  EmitSchedules = FALSE
INVARIANTS NoSendOnClosed ResultsNeverBlock SeqEqual EmitAtReturn
PROPERTIES Returns AllWorkersExit
