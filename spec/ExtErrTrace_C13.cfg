SPECIFICATION Spec
INVARIANTS CompleteOrError
POSTCONDITION TraceAccepted
CHECK_DEADLOCK FALSE
