SPECIFICATION Spec
CONSTANTS
  StrictA = FALSE
  CheckCat = FALSE
  CheckOrder = FALSE
INVARIANTS ColdEqualsWarm ColdWellFormed ReencodesExactly FlagsTruthful
POSTCONDITION TraceAccepted
CHECK_DEADLOCK FALSE
