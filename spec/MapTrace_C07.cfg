SPECIFICATION Spec
CONSTANTS
  StrictA = FALSE
  CheckCat = FALSE
  CheckOrder = FALSE
INVARIANTS ColdEqualsWarm ColdWellFormed
POSTCONDITION TraceAccepted
CHECK_DEADLOCK FALSE
