----------------------------- MODULE ExtErrTrace -----------------------------
(* C18: an error raised by a caller-supplied component (ledger read, key comparator, hash-input provider) at the  *)
(* k-th call made during a lookup is reported as an external error; when the injection point is not reached the   *)
(* lookup gives its normal result.                                                                                 *)
EXTENDS Integers, Sequences, Json, TLC
Trace == ndJsonDeserialize("trace.ndjson")
VARIABLE l
Init == l = 1
Next == l <= Len(Trace) /\ l' = l + 1
Spec == Init /\ [][Next]_l
Cur == Trace[l - 1]
InjectedIsExternal == l > 1 => (Cur.fired => Cur.cat = "external")
OtherwiseNormal == l > 1 => (~Cur.fired => Cur.class = Cur.normal)
\* C13: an enumeration that reports success has yielded every element (a failure while locating the next element is never swallowed)
CompleteOrError == l > 1 => ((Cur.total > 0 /\ Cur.class = "ok") => Cur.got = Cur.total)
TraceAccepted ==
  LET d == TLCGet("stats").diameter IN
  IF d - 1 = Len(Trace) THEN TRUE
  ELSE Print(<<"REJECTED_AT", d, Trace[d].t, Trace[d].ev>>, FALSE)
=============================================================================
