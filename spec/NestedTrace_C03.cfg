SPECIFICATION Spec
CONSTANTS
  StrictA = FALSE
INVARIANTS NoLedgerWrite Persisted CrashRestores CacheCoherent
POSTCONDITION TraceAccepted
CHECK_DEADLOCK FALSE
