SPECIFICATION Spec
CONSTANTS
  StrictA = FALSE
INVARIANTS NoLedgerWrite Persisted CrashRestores
POSTCONDITION TraceAccepted
CHECK_DEADLOCK FALSE
