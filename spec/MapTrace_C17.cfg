SPECIFICATION Spec
CONSTANTS
  StrictA = FALSE
  CheckCat = FALSE
  CheckOrder = FALSE
INVARIANTS BatchOK CopyOK SourceUnaffected
POSTCONDITION TraceAccepted
CHECK_DEADLOCK FALSE
