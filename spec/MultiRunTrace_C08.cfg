SPECIFICATION Spec
CONSTANTS
  CheckResults = TRUE
  CheckRegs = TRUE
INVARIANTS NoHarnessErrors SameResults SameRegisters ColdEqualsWarm
POSTCONDITION TraceAccepted
CHECK_DEADLOCK FALSE
