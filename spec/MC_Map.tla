------------------------------- MODULE MC_Map -------------------------------
(* Bounded exploration of the ordered map: the dictionary model (layer A,     *)
(* MapDict) together with the element-level algorithm (layer C, MapTree)      *)
(* for EVERY digest assignment over DigSet^4 (up to key renaming).  TLC       *)
(* checks that the structure answers lookups like the dictionary, enumerates  *)
(* in canonical order, stays well formed, refuses exactly the inserts the     *)
(* collision rule refuses, and prints each explored history for replay.       *)
EXTENDS MapTree, MapDict, Json

CONSTANTS MaxOps, EmitEdges, EmitOneIn, WithReads,
          DigMode,     \* "all": every assignment over DigSet^4; "spread": distinct first-level digests; "clustered": tiny alphabets
          GrowUntil, ShrinkFrom, EmitDepth   \* simulation walks (see MC_Array)

VARIABLES dict,     \* layer A: entries [k, v, d]; value ids encode their size (id = n * 1000 + size)
          nextId, hist, res

mvars == <<dig, root, dict, nextId, hist, res>>

\* EmitOneIn > 1: print only a random sample of the explored transitions (the value of the conjunct is TRUE either way)
Emit(h) == IF EmitEdges /\ (EmitOneIn <= 1 \/ RandomElement(1..EmitOneIn) = 1) THEN PrintT(ToJson(h)) ELSE TRUE
Step(o) == hist' = Append(hist, o) /\ Emit(hist')
SizeOfId(v) == v % 1000
KeysSeq == [k \in 1..Cardinality(Keys) |-> dig[k]]

Spread(k)    == <<(k * 37) % 101, (k * 11) % 7, k % 3, k % 2>>
Clustered(k) == <<k % 3, (k \div 3) % 2, (k \div 6) % 2, (k \div 12) % 2>>
Init == /\ IF DigMode = "all"
           THEN /\ dig \in [Keys -> [1..LevelsC -> DigSet]]
                /\ \A a, b \in Keys : a < b => VecLeq(dig[a], dig[b])       \* symmetry: keys carry sorted vectors
           ELSE dig = [k \in Keys |-> IF DigMode = "spread" THEN Spread(k) ELSE Clustered(k)]
        /\ root = HElems(0, <<>>, <<>>)
        /\ dict = <<>> /\ nextId = 1
        /\ hist = << <<"dig">> \o KeysSeq >>
        /\ res = MOk(0, FALSE)

SetK(k, vsz) ==
  /\ Len(hist) <= MaxOps
  /\ LET vid == nextId * 1000 + vsz
         a == MSet(dict, k, dig[k], vid, Limit)
         c == ElsSet(root, k, vsz) IN
     /\ dict' = a.s /\ res' = [a.r EXCEPT !.v = SizeOfId(a.r.v)]
     /\ root' = c.e
     /\ nextId' = nextId + 1
     /\ Step(<<"mset", k, KSz, vid, vsz>>)
     /\ UNCHANGED dig

RemoveK(k) ==
  /\ Len(hist) <= MaxOps
  /\ LET a == MRem(dict, k)  c == ElsRemove(root, k) IN
     /\ dict' = a.s /\ res' = [a.r EXCEPT !.v = SizeOfId(a.r.v)]
     /\ root' = c.e
     /\ Step(<<"mrem", k, KSz>>)
     /\ UNCHANGED <<dig, nextId>>

GetK(k) ==
  /\ Len(hist) <= MaxOps
  /\ LET a == MGet(dict, k) IN
     /\ res' = [a.r EXCEPT !.v = SizeOfId(a.r.v)]
     /\ Step(<<"mget", k, KSz>>)
     /\ UNCHANGED <<dig, root, dict, nextId>>

PopAll ==
  /\ Len(hist) <= MaxOps /\ Len(dict) > 0
  /\ dict' = <<>> /\ root' = HElems(0, <<>>, <<>>) /\ res' = MOk(0, FALSE)
  /\ Step(<<"mpop">>) /\ UNCHANGED <<dig, nextId>>

Growing == Len(hist) <= GrowUntil
Shrinking == Len(hist) > ShrinkFrom
\* a type change touches the root's extra data only (C02: "type changes")
SetTypeM(ti) == /\ WithReads /\ Len(hist) <= MaxOps /\ UNCHANGED <<dig, root, dict, nextId>> /\ res' = res /\ Step(<<"msettype", ti>>)
Next == \/ \E ti \in {43} : SetTypeM(ti)
        \/ ~Shrinking /\ \E k \in Keys, v \in VSizes : SetK(k, v)
        \/ Growing /\ \E k \in {j \in Keys : ~HasKey(dict, j)}, v \in VSizes : SetK(k, v)    \* bias towards new keys
        \/ Shrinking /\ \E k \in {j \in Keys : HasKey(dict, j)}, v \in VSizes : SetK(k, v)
        \/ ~Growing /\ \E k \in (IF Shrinking THEN {j \in Keys : HasKey(dict, j)} ELSE Keys) : RemoveK(k)
        \/ WithReads /\ \E k \in Keys : GetK(k)
        \/ WithReads /\ PopAll

Spec == Init /\ [][Next]_mvars

\* ---- design properties: C refines A
DictVal(k) == IF HasKey(dict, k) THEN SizeOfId(ValOf(dict, k)) ELSE NoVal
Lookup == \A k \in Keys : ElsGet(root, k) = DictVal(k)
Order == ElsKeys(root) = CanonKeys(dict)
WF == ElsWF(root, TRUE)
\* the structure refuses exactly what the layer-A rule refuses, and then nothing changes
StepOK == [][ /\ (hist'[Len(hist')][1] = "mset" =>
                    LET k == hist'[Len(hist')][2] IN
                    /\ ElsSet(root, k, 12).err = Refused(dict, k, dig[k], Limit)
                    /\ (Refused(dict, k, dig[k], Limit) => root' = root /\ dict' = dict))
              /\ (hist'[Len(hist')][1] = "mrem" =>
                    LET k == hist'[Len(hist')][2] IN ElsRemove(root, k).found = HasKey(dict, k)) ]_mvars

EmitWalk == (EmitDepth > 0 /\ Len(hist) = EmitDepth + 1) => PrintT(ToJson(hist))
View == <<dig, root, [i \in 1..Len(dict) |-> dict[i].k]>>
=============================================================================
