------------------------------- MODULE Nested -------------------------------
(***************************************************************************)
(* Generator model of nested containers (C09, C10, C11): a heap of         *)
(* containers (arrays and maps) by number, attachment, live handles obeying *)
(* the handle-tree discipline (DESIGN 4.2), mutation through any live       *)
(* handle at any depth, parent restructuring in between, detach by removal  *)
(* or overwrite (kept by the caller or disposed), mutation of detached      *)
(* containers, re-attachment elsewhere, commit / cache drop / crash.        *)
(* TLC simulates walks; each walk's history is replayed into the real code  *)
(* and validated by NestedTrace (layer A = expansion of the heap).          *)
(***************************************************************************)
EXTENDS Integers, Sequences, FiniteSets, Json, TLC

CONSTANTS MaxC,       \* containers ever created
          MaxDepth,   \* nesting depth bound (root = 1)
          MaxE,       \* elements per container
          Sizes,      \* scalar sizes (straddling the inline limits so that children cross them)
          KSz, NKeys, \* map keys: 1..NKeys of size KSz
          BigKeys,    \* keys too large to be stored inline in a map (externally stored keys)
          Wraps,      \* wrapper levels for children, e.g. {0, 1}
          Kinds,      \* kinds of child containers: "A" array, "M" map, "C" map with a composite type (compact encoding when inlined)
          Types,      \* type infos SetType may install (>= 100: composite types, which use the compact encoding when inlined)
          Crashes,    \* with Persist: also abandon the storage and reopen (reverting to the last commit)
          Rejects,    \* also issue requests that must be rejected (out-of-range index, absent key)
          Persist, EmitDepth,
          RareOff     \* TRUE in exhaustive (breadth-first) configurations: every event is enabled in every state

VARIABLES cont,    \* [1..MaxC -> [kind, par, el]]  kind "A" | "M" | "none" (not created / disposed); par = 0: root or detached
          live,    \* containers with a live handle object
          nextVid, nextId, committed, hasc, hist
nvars == <<cont, live, nextVid, nextId, committed, hasc, hist>>

None == [kind |-> "none", par |-> 0, el |-> <<>>, ti |-> 0]
S(id, sz, k) == [t |-> "s", id |-> id, sz |-> sz, w |-> 0, k |-> k]
C(vid, w, k) == [t |-> "c", id |-> vid, sz |-> 0, w |-> w, k |-> k]

Init == /\ cont = [v \in 1..MaxC |-> IF v = 1 THEN [kind |-> "A", par |-> 0, el |-> <<>>, ti |-> 0] ELSE None]
        /\ live = {1} /\ nextVid = 2 /\ nextId = 1 /\ committed = cont /\ hasc = FALSE
        /\ hist = << <<"root", 1, "A">> >>

Exists(v) == cont[v].kind # "none"
RECURSIVE Depth(_)
Depth(v) == IF cont[v].par = 0 THEN 1 ELSE 1 + Depth(cont[v].par)
RECURSIVE Sub(_)      \* the container and everything below it
Sub(v) == {v} \cup UNION {Sub(cont[v].el[i].id) : i \in {j \in 1..Len(cont[v].el) : cont[v].el[j].t = "c"}}
RECURSIVE Height(_)
Height(v) == LET ch == {cont[v].el[i].id : i \in {j \in 1..Len(cont[v].el) : cont[v].el[j].t = "c"}} IN
             IF ch = {} THEN 1 ELSE 1 + (CHOOSE m \in {Height(c) : c \in ch} : \A c \in ch : Height(c) <= m)
Detached == {v \in 1..MaxC : Exists(v) /\ cont[v].par = 0 /\ v # 1}
Pos(v, k) == CHOOSE i \in 1..Len(cont[v].el) : cont[v].el[i].k = k
HasK(v, k) == \E i \in 1..Len(cont[v].el) : cont[v].el[i].k = k
InsAt(s, i, x) == SubSeq(s, 1, i) \o <<x>> \o SubSeq(s, i + 1, Len(s))       \* i 0-based
RemAt(s, i) == SubSeq(s, 1, i) \o SubSeq(s, i + 2, Len(s))
SetAt(s, i, x) == [s EXCEPT ![i + 1] = x]

KS(k) == IF k \in BigKeys THEN 70 ELSE KSz
H(o) == hist' = Append(hist, o)
Keep == UNCHANGED <<committed, hasc>>

\* what happens to an element handed back by remove / overwrite: kept as a detached root, or disposed with its subtree
Release(c0, x, keep) ==
  IF x.t # "c" THEN [c |-> c0, lv |-> live]
  ELSE IF keep THEN [c |-> [c0 EXCEPT ![x.id].par = 0], lv |-> live \cup {x.id}]
  ELSE [c |-> [v \in 1..MaxC |-> IF v \in Sub(x.id) THEN None ELSE c0[v]], lv |-> live \ Sub(x.id)]
RV(x) == IF x.t = "c" THEN x.id ELSE 0

\* ---- arrays
\* scalars may be wrapped too (w levels of the optional-value wrapper)
AppS(h, sz, w) == /\ cont[h].kind = "A" /\ Len(cont[h].el) < MaxE
                  /\ cont' = [cont EXCEPT ![h].el = Append(@, [S(nextId, sz, 0) EXCEPT !.w = w])] /\ nextId' = nextId + 1
                  /\ UNCHANGED <<live, nextVid>> /\ Keep /\ H(<<"n.app", h, nextId, sz, w>>)
InsS(h, i, sz) == /\ cont[h].kind = "A" /\ Len(cont[h].el) < MaxE
                  /\ cont' = [cont EXCEPT ![h].el = InsAt(@, i, S(nextId, sz, 0))] /\ nextId' = nextId + 1
                  /\ UNCHANGED <<live, nextVid>> /\ Keep /\ H(<<"n.ins", h, i, nextId, sz, 0>>)
AppC(h, kind, w) == /\ cont[h].kind = "A" /\ Len(cont[h].el) < MaxE /\ nextVid <= MaxC /\ Depth(h) < MaxDepth
                    /\ cont' = [cont EXCEPT ![h].el = Append(@, C(nextVid, w, 0)), ![nextVid] = [kind |-> kind, par |-> h, el |-> <<>>, ti |-> 0]]
                    /\ live' = live \cup {nextVid} /\ nextVid' = nextVid + 1 /\ UNCHANGED nextId /\ Keep
                    /\ H(<<"n.appc", h, nextVid, kind, w>>)
SetS(h, i, sz, keep) == /\ cont[h].kind = "A"
                        /\ LET x == cont[h].el[i + 1]
                               r == Release([cont EXCEPT ![h].el = SetAt(@, i, S(nextId, sz, 0))], x, keep) IN
                           cont' = r.c /\ live' = r.lv /\ H(<<"n.set", h, i, nextId, sz, 0, keep, RV(x)>>)
                        /\ nextId' = nextId + 1 /\ UNCHANGED nextVid /\ Keep
Rem(h, i, keep) == /\ cont[h].kind = "A"
                   /\ LET x == cont[h].el[i + 1]
                          r == Release([cont EXCEPT ![h].el = RemAt(@, i)], x, keep) IN
                      cont' = r.c /\ live' = r.lv /\ H(<<"n.rem", h, i, keep, RV(x)>>)
                   /\ UNCHANGED <<nextVid, nextId>> /\ Keep
Get(h, i) == /\ cont[h].kind = "A" /\ cont[h].el[i + 1].t = "c"
             /\ LET c == cont[h].el[i + 1].id IN
                live' = (live \ Sub(c)) \cup {c} /\ H(<<"n.get", h, i, c>>)      \* re-acquiring retires the subtree's handles
             /\ UNCHANGED <<cont, nextVid, nextId>> /\ Keep
Attach(h, d, w) == /\ cont[h].kind = "A" /\ Len(cont[h].el) < MaxE /\ d \in Detached /\ d \in live /\ d \notin Sub(h) /\ h \notin Sub(d)
                   /\ Depth(h) + Height(d) <= MaxDepth
                   /\ cont' = [cont EXCEPT ![h].el = Append(@, C(d, w, 0)), ![d].par = h]
                   /\ UNCHANGED <<live, nextVid, nextId>> /\ Keep /\ H(<<"n.attach", h, d, w>>)
\* ---- maps
MSetS(h, k, sz, keep) ==
  /\ cont[h].kind \in {"M", "C"} /\ (HasK(h, k) \/ Len(cont[h].el) < MaxE)
  /\ IF HasK(h, k)
     THEN LET p == Pos(h, k)  x == cont[h].el[p]
              r == Release([cont EXCEPT ![h].el = [@ EXCEPT ![p] = S(nextId, sz, k)]], x, keep) IN
          cont' = r.c /\ live' = r.lv /\ H(<<"n.mset", h, k, KS(k), nextId, sz, 0, keep, RV(x)>>)
     ELSE cont' = [cont EXCEPT ![h].el = Append(@, S(nextId, sz, k))] /\ UNCHANGED live
          /\ H(<<"n.mset", h, k, KS(k), nextId, sz, 0, keep, 0>>)
  /\ nextId' = nextId + 1 /\ UNCHANGED nextVid /\ Keep
MSetC(h, k, kind, w) ==
  /\ cont[h].kind \in {"M", "C"} /\ ~HasK(h, k) /\ Len(cont[h].el) < MaxE /\ nextVid <= MaxC /\ Depth(h) < MaxDepth
  /\ cont' = [cont EXCEPT ![h].el = Append(@, C(nextVid, w, k)), ![nextVid] = [kind |-> kind, par |-> h, el |-> <<>>, ti |-> 0]]
  /\ live' = live \cup {nextVid} /\ nextVid' = nextVid + 1 /\ UNCHANGED nextId /\ Keep
  /\ H(<<"n.msetc", h, k, KS(k), nextVid, kind, w>>)
MRem(h, k, keep) ==
  /\ cont[h].kind \in {"M", "C"} /\ HasK(h, k)
  /\ LET p == Pos(h, k)  x == cont[h].el[p]
         r == Release([cont EXCEPT ![h].el = RemAt(@, p - 1)], x, keep) IN
     cont' = r.c /\ live' = r.lv /\ H(<<"n.mrem", h, k, KS(k), keep, RV(x)>>)
  /\ UNCHANGED <<nextVid, nextId>> /\ Keep
MGet(h, k) == /\ cont[h].kind \in {"M", "C"} /\ HasK(h, k) /\ cont[h].el[Pos(h, k)].t = "c"
              /\ LET c == cont[h].el[Pos(h, k)].id IN
                 live' = (live \ Sub(c)) \cup {c} /\ H(<<"n.mget", h, k, KS(k), c>>)
              /\ UNCHANGED <<cont, nextVid, nextId>> /\ Keep
MAttach(h, k, d, w) == /\ cont[h].kind \in {"M", "C"} /\ ~HasK(h, k) /\ Len(cont[h].el) < MaxE /\ d \in Detached /\ d \in live
                       /\ d \notin Sub(h) /\ h \notin Sub(d) /\ Depth(h) + Height(d) <= MaxDepth
                       /\ cont' = [cont EXCEPT ![h].el = Append(@, C(d, w, k)), ![d].par = h]
                       /\ UNCHANGED <<live, nextVid, nextId>> /\ Keep /\ H(<<"n.mattach", h, k, KS(k), d, w>>)
\* ---- re-acquire handles to all children of h through its mutable iterator
Children(h) == {cont[h].el[i].id : i \in {j \in 1..Len(cont[h].el) : cont[h].el[j].t = "c"}}
Iter(h) == /\ Children(h) # {}
           /\ live' = (live \ UNION {Sub(c) : c \in Children(h)}) \cup Children(h)
           /\ UNCHANGED <<cont, nextVid, nextId>> /\ Keep /\ H(<<"n.iter", h>>)
\* ---- mutable iteration over h that MUTATES every child array it meets, inside the iteration callback (C13: "mutating a nested
\* container during mutable iteration ... does not skip or repeat elements"; C10: the handle comes from the mutable iterator):
\* each child array gets one more scalar of size sz - children may outgrow the inline limit and be moved out of the parent's slab
\* while the iterator is standing on them.  Element ids are assigned by child number (the iteration order of a map parent is
\* not known to this model): pairs <<child, new element id>>.
RECURSIVE SetSeq(_)
SetSeq(Q) == IF Q = {} THEN <<>> ELSE LET x == CHOOSE y \in Q : \A z \in Q : y <= z IN <<x>> \o SetSeq(Q \ {x})
ChildArrays(h) == {c \in Children(h) : cont[c].kind = "A" /\ Len(cont[c].el) < MaxE}
IterMut(h, sz) ==
  /\ ChildArrays(h) # {}
  /\ LET cs == SetSeq(ChildArrays(h))
         pairs == [i \in 1..Len(cs) |-> <<cs[i], nextId + i - 1>>] IN
     /\ cont' = [v \in 1..MaxC |-> IF v \in ChildArrays(h)
                                    THEN [cont[v] EXCEPT !.el = Append(@, S(nextId + (CHOOSE i \in 1..Len(cs) : cs[i] = v) - 1, sz, 0))]
                                    ELSE cont[v]]
     /\ nextId' = nextId + Len(cs)
     /\ H(<<"n.itermut", h, sz, pairs>>)
  /\ live' = (live \ UNION {Sub(c) : c \in Children(h)}) \cup Children(h)
  /\ UNCHANGED nextVid /\ Keep
SetType(h, ti) == /\ cont[h].ti # ti /\ cont' = [cont EXCEPT ![h].ti = ti]       \* ti = 0: the type the container was created with
                  /\ UNCHANGED <<live, nextVid, nextId>> /\ Keep /\ H(<<"n.settype", h, ti>>)
\* ---- requests that must be rejected (C18), through any live handle at any depth: an index beyond the end of an array (with a
\* value large enough to need a slab of its own, so that a conversion done before the bounds check would leave a slab behind),
\* a lookup / removal of an absent key of a map.  Model state unchanged.
RejA(h, what) == /\ cont[h].kind = "A" /\ UNCHANGED <<cont, live, nextVid, nextId>> /\ Keep
                 /\ H(<<"x.arr", what, h, Len(cont[h].el) + (IF what = "ins" THEN 1 ELSE 0), nextId, 130>>)
RejAC(h, what, kd) == /\ cont[h].kind = "A" /\ UNCHANGED <<cont, live, nextVid, nextId>> /\ Keep
                      /\ H(<<"x.arrc", what, h, Len(cont[h].el) + (IF what = "ins" THEN 1 ELSE 0), kd>>)
RejM(h, what, k) == /\ cont[h].kind \in {"M", "C"} /\ ~HasK(h, k) /\ UNCHANGED <<cont, live, nextVid, nextId>> /\ Keep
                    /\ H(<<"x.map", what, h, k, KS(k)>>)
\* ---- bulk pop through any live handle (children are disposed)
Pop(h) == /\ Len(cont[h].el) > 0
          /\ LET gone == UNION {Sub(cont[h].el[i].id) : i \in {j \in 1..Len(cont[h].el) : cont[h].el[j].t = "c"}} IN
             /\ cont' = [v \in 1..MaxC |-> IF v \in gone THEN None ELSE IF v = h THEN [cont[h] EXCEPT !.el = <<>>] ELSE cont[v]]
             /\ live' = live \ gone
          /\ UNCHANGED <<nextVid, nextId>> /\ Keep /\ H(<<"n.pop", h>>)
\* ---- persistence: every handle except root handles is retired by a cache drop or a reopen (rule iv)
RootHandles == {v \in 1..MaxC : Exists(v) /\ cont[v].par = 0}
Commit(m, w) == Persist /\ committed' = cont /\ hasc' = TRUE /\ UNCHANGED <<cont, live, nextVid, nextId>> /\ H(<<"commit", m, w, 0>>)
Drop == Persist /\ hasc /\ committed = cont /\ live' = RootHandles /\ UNCHANGED <<cont, nextVid, nextId, committed, hasc>> /\ H(<<"dropcache">>)
Crash == /\ Persist /\ Crashes /\ hasc /\ cont' = committed
         /\ live' = {v \in 1..MaxC : committed[v].kind # "none" /\ committed[v].par = 0}
         /\ UNCHANGED <<nextVid, nextId, committed, hasc>> /\ H(<<"crash">>)

\* TLC's simulator picks a disjunct uniformly: rarer events are enabled only every n-th step
Rare(n) == RareOff \/ Len(hist) % n = 0
Next ==
  \/ \E h \in live, s \in Sizes, w \in Wraps : AppS(h, s, w)
  \/ \E h \in live, s \in Sizes : \E i \in 0..Len(cont[h].el) : InsS(h, i, s)
  \/ \E h \in live, kd \in Kinds, w \in Wraps : AppC(h, kd, w)
  \/ \E h \in live, s \in Sizes, kp \in BOOLEAN : \E i \in 0..(Len(cont[h].el) - 1) : SetS(h, i, s, kp)
  \/ \E h \in live, kp \in BOOLEAN : \E i \in 0..(Len(cont[h].el) - 1) : Rem(h, i, kp)
  \/ \E h \in live : \E i \in 0..(Len(cont[h].el) - 1) : Get(h, i)
  \/ \E h \in live, d \in Detached, w \in Wraps : Attach(h, d, w)
  \/ \E h \in live, k \in 1..NKeys, s \in Sizes, kp \in BOOLEAN : MSetS(h, k, s, kp)
  \/ \E h \in live, k \in 1..NKeys, kd \in Kinds, w \in Wraps : MSetC(h, k, kd, w)
  \/ \E h \in live, k \in 1..NKeys, kp \in BOOLEAN : MRem(h, k, kp)
  \/ \E h \in live, k \in 1..NKeys : MGet(h, k)
  \/ \E h \in live, k \in 1..NKeys, d \in Detached, w \in Wraps : MAttach(h, k, d, w)
  \/ Rejects /\ Rare(4) /\ \E h \in live, what \in {"get", "set", "ins", "rem"} : RejA(h, what)
  \/ Rejects /\ Rare(4) /\ \E h \in live, what \in {"mget", "mrem"}, k \in 1..NKeys : RejM(h, what, k)
  \/ Rejects /\ Rare(4) /\ \E h \in live, what \in {"set", "ins"}, kd \in Kinds : RejAC(h, what, kd)
  \/ Rare(3) /\ \E h \in live : Iter(h)
  \/ Rare(3) /\ \E h \in live, sz \in Sizes : IterMut(h, sz)
  \/ Rare(5) /\ \E h \in live, ti \in Types : SetType(h, ti)
  \/ Rare(9) /\ \E h \in live : Pop(h)
  \/ Rare(4) /\ ((\E m \in {"det", "nondet"}, w \in {1, 3} : Commit(m, w)) \/ Drop \/ Crash)

Spec == Init /\ [][Next]_nvars

\* sanity of the generator itself
LiveClosed == \A v \in live : Exists(v) /\ (cont[v].par # 0 => cont[v].par \in live)
ParentsAgree == \A v \in 1..MaxC : Exists(v) =>
  \A i \in 1..Len(cont[v].el) : cont[v].el[i].t = "c" => (Exists(cont[v].el[i].id) /\ cont[cont[v].el[i].id].par = v)
EmitWalk == (EmitDepth > 0 /\ Len(hist) = EmitDepth + 1) => PrintT(ToJson(hist))
=============================================================================
