SPECIFICATION Spec
INVARIANTS BytesSizesAgree
POSTCONDITION TraceAccepted
CHECK_DEADLOCK FALSE
