----------------------------- MODULE MC_MapFull -----------------------------
(* Bounded exploration of the COMPOSED map algorithm (MapFull: slab tree x collision groups) against the dictionary   *)
(* (MapDict): keys whose first-level digests collide in pairs / triples (differing at the second level, or on every   *)
(* level), large and small values, so that groups form, spill into external slabs, collapse on removal, while the     *)
(* slabs that hold them split, borrow and merge.  TLC checks well-formedness, refinement of the dictionary (content,   *)
(* canonical order, lookups, the collision-limit refusals) and prints every explored transition for replay.            *)
EXTENDS MapFull, MapDict, Json

CONSTANTS Keys, VSizes, MaxKeys, DigMode, EmitEdges, EmitOneIn, WithReads

VARIABLES tree, dict, nextId, hist, res
mvars == <<tree, dict, nextId, hist, res, digv>>

\* "pairs": keys 2j-1, 2j share the first-level digest, differ at the second;  "triples": three keys per first-level digest, two of
\* them colliding on every level (insertion-ordered list at the last level);  "deep": pairs that differ only at the last level
DigPairs(k)   == <<((k + 1) \div 2) * 10, k % 2, 0, 0>>
DigTriples(k) == <<((k + 2) \div 3) * 10, IF k % 3 = 0 THEN 1 ELSE 0, 0, 0>>
DigDeep(k)    == <<((k + 1) \div 2) * 10, 0, 0, k % 2>>
\* "mixed": keys 1..4 in two colliding pairs, the others with first-level digests of their own (slabs split AND groups form)
DigMixed(k)   == IF k <= 4 THEN DigPairs(k) ELSE <<k * 10, 0, 0, 0>>
DigM(k) == IF DigMode = "pairs" THEN DigPairs(k) ELSE IF DigMode = "triples" THEN DigTriples(k)
           ELSE IF DigMode = "mixed" THEN DigMixed(k) ELSE DigDeep(k)
\* vacuity indicators (evaluated by the *_cover configuration: TLC must find states where the two halves interact)
RECURSIVE HasGroupKind(_, _)
HasGroupKind(n, kind) == IF n.k = "d" THEN \E i \in 1..Len(n.e) : n.e[i].g.t = kind
                         ELSE \E i \in 1..Len(n.c) : HasGroupKind(n.c[i], kind)
NeverExternalGroupInMultiSlabTree == ~(tree.k = "m" /\ HasGroupKind(tree, "x"))
NeverInlineGroupInMultiSlabTree == ~(tree.k = "m" /\ HasGroupKind(tree, "g"))
NeverThreeLevels == ~(tree.k = "m" /\ tree.c[1].k = "m")
KeysSeq == [k \in 1..Cardinality(Keys) |-> DigM(k)]
\* EmitOneIn > 1: print only a random sample of the explored transitions (the value of the conjunct is TRUE either way)
Emit(h) == IF EmitEdges /\ (EmitOneIn <= 1 \/ RandomElement(1..EmitOneIn) = 1) THEN PrintT(ToJson(h)) ELSE TRUE
Step(o) == hist' = Append(hist, o) /\ Emit(hist')

Init == digv = [k \in Keys |-> DigM(k)] /\ tree = EmptyTree /\ dict = <<>> /\ nextId = 1 /\ hist = << <<"dig">> \o KeysSeq >> /\ res = MOk(0, FALSE)

SetK(k, vsz) ==
  /\ (HasKey(dict, k) \/ Len(dict) < MaxKeys)
  /\ LET vid == nextId * 1000 + vsz  a == MSet(dict, k, DigM(k), vid, LimitF)  c == FSet(tree, k, vsz) IN
     /\ dict' = a.s /\ res' = a.r /\ tree' = c.t /\ nextId' = nextId + 1 /\ UNCHANGED digv
     /\ Step(<<"mset", k, KSzF, vid, vsz>>)
RemoveK(k) ==
  /\ LET a == MRem(dict, k) IN
     /\ dict' = a.s /\ res' = a.r /\ tree' = FRemove(tree, k).t /\ UNCHANGED <<nextId, digv>>
     /\ Step(<<"mrem", k, KSzF>>)
GetK(k) == /\ res' = MGet(dict, k).r /\ UNCHANGED <<tree, dict, nextId, digv>> /\ Step(<<"mget", k, KSzF>>)

Next == \/ \E k \in Keys, v \in VSizes : SetK(k, v)
        \/ \E k \in (IF WithReads THEN Keys ELSE {j \in Keys : HasKey(dict, j)}) : RemoveK(k)
        \/ WithReads /\ \E k \in Keys : GetK(k)
Spec == Init /\ [][Next]_mvars

WellFormed == FWFNode(tree, TRUE) /\ SameDepth(tree) /\ SortedUnique(tree)
Refines == /\ FKeys(tree) = CanonKeys(dict)                                    \* content and canonical order
           /\ \A k \in Keys : FGetN(tree, k) = (IF HasKey(dict, k) THEN ValOf(dict, k) % 1000 ELSE 0)      \* lookups route to every key
\* the element algorithm refuses exactly the inserts the dictionary rule refuses, and removal finds exactly the present keys
StepOK == [][ LET o == hist'[Len(hist')] IN
              /\ (o[1] = "mset" => (FSet(tree, o[2], 12).err = Refused(dict, o[2], DigM(o[2]), LimitF)))
              /\ (o[1] = "mrem" => (FRemove(tree, o[2]).found = HasKey(dict, o[2]))) ]_mvars
RECURSIVE RoutingOK(_)
RoutingOK(n) == n.k = "d" \/ (/\ \A k \in Keys : RoutingAgrees(n.c, DigM(k)[1])
                              /\ \A i \in 1..Len(n.c) : RoutingOK(n.c[i]))
Routing == RoutingOK(tree)
\* the view: slab shape plus, per element, its internal structure (groups matter for the next step)
RECURSIVE GShape(_)
GShape(n) == IF n.k = "d" THEN [k |-> "d", e |-> [i \in 1..Len(n.e) |-> n.e[i].g]]
             ELSE [k |-> "m", c |-> [i \in 1..Len(n.c) |-> GShape(n.c[i])]]
\* insertion order is observable only among keys that collide on every level
FullyColliding(k) == \E j \in Keys : j # k /\ DigM(j) = DigM(k)
OrderView == SelectSeq([i \in 1..Len(dict) |-> dict[i].k], FullyColliding)
View == <<GShape(tree), OrderView>>
=============================================================================
