SPECIFICATION Spec
CONSTANTS
  StrictA = TRUE
  CheckCat = FALSE
  CheckOrder = TRUE
INVARIANTS RefinesDict CanonicalOrder IterOK PartialOK
POSTCONDITION TraceAccepted
CHECK_DEADLOCK FALSE
