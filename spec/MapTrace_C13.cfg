SPECIFICATION Spec
CONSTANTS
  StrictA = TRUE
  CheckCat = FALSE
  CheckOrder = TRUE
INVARIANTS RefinesDict CanonicalOrder
POSTCONDITION TraceAccepted
CHECK_DEADLOCK FALSE
