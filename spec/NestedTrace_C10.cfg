SPECIFICATION Spec
CONSTANTS
  StrictA = TRUE
INVARIANTS ReadsThrough Persisted CrashRestores AllValid InlineRule
POSTCONDITION TraceAccepted
CHECK_DEADLOCK FALSE
