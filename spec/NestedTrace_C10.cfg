SPECIFICATION Spec
CONSTANTS
  StrictA = TRUE
INVARIANTS ReadsThrough Persisted CrashRestores AllValid InlineRule CacheCoherent
POSTCONDITION TraceAccepted
CHECK_DEADLOCK FALSE
