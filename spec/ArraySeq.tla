----------------------------- MODULE ArraySeq -----------------------------
(***************************************************************************)
(* Layer A: an atree Array is a plain sequence.  Each operator returns the *)
(* new sequence together with the result the API must report              *)
(* (C01, C13, C18).  Indices are 0-based as in the API.                    *)
(***************************************************************************)
EXTENDS Integers, Sequences

SeqSub(s, a, b) == IF a > b THEN <<>> ELSE SubSeq(s, a, b)
SeqInsertAt(s, i, x) == SeqSub(s, 1, i) \o <<x>> \o SeqSub(s, i + 1, Len(s))
SeqRemoveAt(s, i) == SeqSub(s, 1, i) \o SeqSub(s, i + 2, Len(s))
SeqSetAt(s, i, x) == SeqSub(s, 1, i) \o <<x>> \o SeqSub(s, i + 2, Len(s))
RECURSIVE SeqReverse(_)
SeqReverse(s) == IF s = <<>> THEN <<>> ELSE SeqReverse(Tail(s)) \o <<Head(s)>>

\* result records: class / category of the reported error, v = returned element id (0 = none)
Ok(v)      == [class |-> "ok", cat |-> "", v |-> v]
OutOfRange == [class |-> "IndexOutOfBounds", cat |-> "user", v |-> 0]

AIns(s, i, x) == IF i >= 0 /\ i <= Len(s) THEN [s |-> SeqInsertAt(s, i, x), r |-> Ok(0)] ELSE [s |-> s, r |-> OutOfRange]
ASet(s, i, x) == IF i >= 0 /\ i < Len(s) THEN [s |-> SeqSetAt(s, i, x), r |-> Ok(s[i + 1])] ELSE [s |-> s, r |-> OutOfRange]
ARem(s, i)    == IF i >= 0 /\ i < Len(s) THEN [s |-> SeqRemoveAt(s, i), r |-> Ok(s[i + 1])] ELSE [s |-> s, r |-> OutOfRange]
AGet(s, i)    == IF i >= 0 /\ i < Len(s) THEN [s |-> s, r |-> Ok(s[i + 1])] ELSE [s |-> s, r |-> OutOfRange]

\* ranges (C13): [a, b) valid iff a <= b <= Len
RangeOk(s, a, b) == a <= b /\ b <= Len(s)
RangeClass(s, a, b) == IF a > Len(s) \/ b > Len(s) THEN "SliceOutOfBounds"
                       ELSE IF a > b THEN "InvalidSliceIndex" ELSE "ok"
Range(s, a, b) == SeqSub(s, a + 1, b)
=============================================================================
