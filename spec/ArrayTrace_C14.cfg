SPECIFICATION Spec
CONSTANTS
  T <- TraceT
  StrictA = FALSE
  CheckCat = FALSE
INVARIANTS FailedCommitIsExternal Durable
POSTCONDITION TraceAccepted
CHECK_DEADLOCK FALSE
