----------------------------- MODULE BytesTrace -----------------------------
(* C17: byte slice -> byte array -> byte slice.  Each record is one conversion of a byte string of a given      *)
(* length with a given per-element size estimate; the resulting array must hold exactly the bytes (round trip),  *)
(* report the right count and be a valid slab tree by TreeInv, whatever the estimate.                            *)
EXTENDS Integers, Sequences, Json, TLC
Trace == ndJsonDeserialize("trace.ndjson")
VARIABLE l
Init == l = 1
Next == l <= Len(Trace) /\ l' = l + 1
Spec == Init /\ [][Next]_l
Cur == Trace[l - 1]
TI(T) == INSTANCE TreeInv
ConversionOK == l > 1 =>
  /\ Cur.class = "ok" /\ Cur.back = "ok" /\ Cur.roundtrip
  /\ Len(Cur.roots) = 1 /\ Cur.roots[1].n = Cur.len /\ Len(Cur.roots[1].abs) = Cur.len
  /\ Len(TI(Cur.T)!AFlatten(Cur.roots[1].F[1])) = Cur.len
  /\ TI(Cur.T)!ArrayWellFormed(Cur.roots[1].F[1]) /\ TI(Cur.T)!ArraySizesAgree(Cur.roots[1].F[1])
  /\ Cur.st.stored = Cur.st.reach
\* C06: the container built by the conversion reports sizes that agree with its content (prefix + element sizes, header copies)
BytesSizesAgree == (l > 1 /\ Cur.class = "ok" /\ Len(Cur.roots) = 1) => TI(Cur.T)!ArraySizesAgree(Cur.roots[1].F[1])
TraceAccepted ==
  LET d == TLCGet("stats").diameter IN
  IF d - 1 = Len(Trace) THEN TRUE
  ELSE Print(<<"REJECTED_AT", d, Trace[d].t, Trace[d].ev>>, FALSE)
=============================================================================
