SPECIFICATION Spec
INVARIANTS ConversionOK
POSTCONDITION TraceAccepted
CHECK_DEADLOCK FALSE
