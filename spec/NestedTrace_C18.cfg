SPECIFICATION Spec
CONSTANTS
  StrictA = TRUE
INVARIANTS ReadsThrough NoTraceOfRejected
POSTCONDITION TraceAccepted
CHECK_DEADLOCK FALSE
