----------------------------- MODULE HealthOps -----------------------------
(***************************************************************************)
(* C20: slab reference graphs and the healthy predicate.  A graph is       *)
(*   ex  : [1..N -> BOOLEAN]      the slab exists in storage               *)
(*   own : [1..N -> Nat]          owner address                            *)
(*   refs: [1..N -> Seq(1..N)]    references held by the slab (a sequence: *)
(*                                the same target may be referenced twice) *)
(* Healthy(g, n): every reference resolves, every slab is referenced at    *)
(* most once, referrer and referee share the owner, every slab is          *)
(* reachable from a root (no detached cycle) and there are exactly n roots.*)
(* The bounded model enumerates every healthy labelled forest over N slabs *)
(* and every single corruption of the four kinds; each case is built in a  *)
(* real storage by the harness and judged by CheckStorageHealth and        *)
(* GetAllChildReferences.                                                  *)
(***************************************************************************)
EXTENDS Integers, Sequences, FiniteSets

IdsOf(g) == DOMAIN g.ex
SeqToSet(s) == {s[i] : i \in 1..Len(s)}
Live(g) == {i \in IdsOf(g) : g.ex[i]}
RefPairs(g) == UNION {{<<i, k>> : k \in 1..Len(g.refs[i])} : i \in Live(g)}
Referrers(g, x) == {p \in RefPairs(g) : g.refs[p[1]][p[2]] = x}        \* (holder, position) pairs pointing at x
Roots(g) == {i \in Live(g) : Referrers(g, i) = {}}
RECURSIVE ReachFrom(_, _, _)
ReachFrom(g, S, seen) == LET nxt == (UNION {SeqToSet(g.refs[i]) \cap Live(g) : i \in S}) \ seen IN
                         IF nxt = {} THEN seen ELSE ReachFrom(g, nxt, seen \cup nxt)
Reachable(g) == ReachFrom(g, Roots(g), Roots(g))

AllResolve(g)  == \A i \in Live(g) : \A k \in 1..Len(g.refs[i]) : g.ex[g.refs[i][k]]
SingleParent(g) == \A x \in IdsOf(g) : Cardinality(Referrers(g, x)) <= 1
SameOwner(g)   == \A i \in Live(g) : \A k \in 1..Len(g.refs[i]) : g.ex[g.refs[i][k]] => g.own[g.refs[i][k]] = g.own[i]
AllReachable(g) == Reachable(g) = Live(g)
Healthy(g, n)  == AllResolve(g) /\ SingleParent(g) /\ SameOwner(g) /\ AllReachable(g) /\ Cardinality(Roots(g)) = n

\* GetAllChildReferences(id): resolvable and broken references reachable from id (transitively through resolvable ones)
RECURSIVE Collect(_, _, _, _)
Collect(g, frontier, refsAcc, brokenAcc) ==
  IF frontier = {} THEN <<refsAcc, brokenAcc>>
  ELSE LET tgt == UNION {SeqToSet(g.refs[i]) : i \in frontier}
           good == {x \in tgt : g.ex[x]}  bad == tgt \ good
           new == good \ refsAcc
       IN Collect(g, new, refsAcc \cup good, brokenAcc \cup bad)
ChildRefs(g, id) == Collect(g, {id}, {}, {})

=============================================================================
