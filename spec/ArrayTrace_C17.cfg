SPECIFICATION Spec
CONSTANTS
  T <- TraceT
  StrictA = FALSE
  CheckCat = FALSE
INVARIANTS BatchOK CopyOK SourceUnaffected
POSTCONDITION TraceAccepted
CHECK_DEADLOCK FALSE
