------------------------------ MODULE MapFull ------------------------------
(***************************************************************************)
(* Layer C of the ordered map, COMPOSED: the slab tree of MapSlabTree       *)
(* (split, lend / borrow, merge-or-rebalance, first-digest routing,         *)
(* promotion before root split) whose data slabs hold, per first-level      *)
(* digest, an element of MapTree (single element, inline collision group,   *)
(* external collision group; deeper levels; the insertion-ordered list at   *)
(* the last level; the collision limit).  An element of a data slab is      *)
(*     [d |-> first-level digest, sz |-> MT!ElemSize(g), g |-> element]     *)
(* MapSlabTree's operators only move such records around and add up their   *)
(* sizes, so they are reused unchanged; Set / Remove inside a data slab are  *)
(* MapTree's ElsSet / ElsRemove on that slab's element list.  This is where  *)
(* the two halves interact: a removal that collapses an external group puts  *)
(* a large single element back into its slab, which can overflow and must    *)
(* be split (and the parent after it); an update that grows a group moves    *)
(* it out of the slab, which can underflow and must borrow or merge.         *)
(* Never produces verdicts on the code.                                      *)
(***************************************************************************)
EXTENDS MapSlabTree

CONSTANTS KSzF,           \* key size
          LimitF          \* collision limit
VARIABLE digv             \* key -> <<d0, d1, d2, d3>> (never changes in the bounded model; in trace validation it is the
                          \* digest table observed in the trace, which is why it is not a constant)
DigOf(k) == digv[k]

MT == INSTANCE MapTree WITH Keys <- {}, DigSet <- {}, KSz <- KSzF, VSizes <- {}, Limit <- LimitF,
                            MaxInlineElem <- MaxElem, dig <- digv, root <- <<>>

\* the element list of a data slab as MapTree sees it, and back
ElsOf(es) == MT!HElems(0, [i \in 1..Len(es) |-> es[i].d], [i \in 1..Len(es) |-> es[i].g])
OfEls(els) == [i \in 1..Len(els.el) |-> [d |-> els.hk[i], sz |-> MT!ElemSize(els.el[i]), g |-> els.el[i]]]

\* ---- set: result [n |-> new node, old |-> previous value size (0 = none), err |-> refused by the collision limit]
RECURSIVE FSetN(_, _, _)
FSetN(n, k, v) ==
  IF n.k = "d"
  THEN LET r == MT!ElsSet(ElsOf(n.e), k, v) IN [n |-> Data(OfEls(r.e)), old |-> r.old, err |-> r.err]
  ELSE LET d == DigOf(k)[1]
           r0 == RouteIdx(n.c, d)  ci == IF r0 = 0 THEN 1 ELSE r0
           sub == FSetN(n.c[ci], k, v)
           nc == sub.n
           cs == ReplaceAt(n.c, ci, <<nc>>)
       IN IF sub.err THEN [n |-> n, old |-> 0, err |-> TRUE]
          ELSE [n |-> (IF IsFull(nc) THEN Meta(ReplaceAt(n.c, ci, Split(nc)))
                       ELSE IF IsUnder(nc) THEN Meta(MergeOrRebalance(cs, ci)) ELSE Meta(cs)),
                old |-> sub.old, err |-> FALSE]
FSet(t, k, v) == LET r == FSetN(t, k, v) IN IF r.err THEN [t |-> t, old |-> 0, err |-> TRUE]
                                              ELSE [t |-> AfterRoot(r.n), old |-> r.old, err |-> FALSE]

\* ---- remove: result [n |-> new node, val |-> removed value size, found]
RECURSIVE FRemN(_, _)
FRemN(n, k) ==
  IF n.k = "d"
  THEN LET r == MT!ElsRemove(ElsOf(n.e), k) IN [n |-> Data(OfEls(r.e)), val |-> r.val, found |-> r.found]
  ELSE LET ci == RouteIdx(n.c, DigOf(k)[1]) IN
       IF ci = 0 THEN [n |-> n, val |-> 0, found |-> FALSE]
       ELSE LET sub == FRemN(n.c[ci], k)
                nc == sub.n
                cs == ReplaceAt(n.c, ci, <<nc>>)
            IN IF ~sub.found THEN [n |-> n, val |-> 0, found |-> FALSE]
               ELSE [n |-> (IF IsFull(nc) THEN Meta(ReplaceAt(n.c, ci, Split(nc)))
                            ELSE IF IsUnder(nc) THEN Meta(MergeOrRebalance(cs, ci)) ELSE Meta(cs)),
                     val |-> sub.val, found |-> TRUE]
FRemove(t, k) == LET r == FRemN(t, k) IN IF ~r.found THEN [t |-> t, val |-> 0, found |-> FALSE]
                                           ELSE [t |-> AfterRoot(r.n), val |-> r.val, found |-> TRUE]

\* ---- lookup through the index slabs and the element levels
RECURSIVE FGetN(_, _)
FGetN(n, k) == IF n.k = "d" THEN MT!ElsGet(ElsOf(n.e), k)
               ELSE LET ci == RouteIdx(n.c, DigOf(k)[1]) IN IF ci = 0 THEN 0 ELSE FGetN(n.c[ci], k)

\* ---- enumeration order: slabs left to right, inside an element MapTree's order
RECURSIVE FKeysSeq(_)
FKeysSeq(es) == IF es = <<>> THEN <<>> ELSE MT!ElemKeys(Head(es).g) \o FKeysSeq(Tail(es))
FKeys(t) == FKeysSeq(Flatten(t))

\* ---- structure
RECURSIVE FWFNode(_, _)
FWFNode(n, isRoot) ==
  /\ (IF isRoot THEN RootSize(n) ELSE Size(n)) <= MaxT
  /\ isRoot \/ Size(n) >= MinT
  /\ n.k = "d" => /\ MT!ElsWF(ElsOf(n.e), TRUE)
                  /\ \A i \in 1..Len(n.e) : n.e[i].sz = MT!ElemSize(n.e[i].g) /\ n.e[i].sz <= MaxElem
  /\ n.k = "m" => /\ (isRoot => Len(n.c) >= 2) /\ Len(n.c) >= 1
                  /\ \A i \in 1..Len(n.c) : FWFNode(n.c[i], FALSE)
RECURSIVE FShape(_)
FShape(n) == IF n.k = "d" THEN [k |-> "d", e |-> [i \in 1..Len(n.e) |-> <<n.e[i].d, n.e[i].sz>>]]
             ELSE [k |-> "m", c |-> [i \in 1..Len(n.c) |-> FShape(n.c[i])]]
=============================================================================
