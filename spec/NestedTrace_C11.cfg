SPECIFICATION Spec
CONSTANTS
  StrictA = TRUE
INVARIANTS ReadsThrough OtherRootsUntouched RootsStandalone Persisted
POSTCONDITION TraceAccepted
CHECK_DEADLOCK FALSE
