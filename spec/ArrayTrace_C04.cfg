SPECIFICATION Spec
CONSTANTS
  T <- TraceT
  StrictA = FALSE
  CheckCat = FALSE
INVARIANTS DetOrder
POSTCONDITION TraceAccepted
CHECK_DEADLOCK FALSE
