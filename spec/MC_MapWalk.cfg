SPECIFICATION Spec
CONSTANTS
  Keys = {1, 2, 3}
  KSz = 5
  VSizes = {12, 40}
  Limit = 255
  DigMode = "spread"
  Persist = FALSE
  PersistEvery = 1
  AllowPop = TRUE
  GrowUntil = 0
  ShrinkFrom = 1000000
  EmitDepth = 100
  FanFrom = 100
  FanShrink = FALSE
INVARIANTS EmitWalk
CHECK_DEADLOCK FALSE
