----------------------------- MODULE HealthTrace -----------------------------
(***************************************************************************)
(* Trace specification for C20: each record is one storage built by the    *)
(* harness from a reference graph (real arrays whose elements are slab     *)
(* references), fully loaded, on which CheckStorageHealth and              *)
(* GetAllChildReferences were called.  The verdict the real functions give *)
(* must be the one the healthy predicate gives on the same graph.          *)
(***************************************************************************)
EXTENDS Integers, Sequences, FiniteSets, Json, TLC

Trace == ndJsonDeserialize("trace.ndjson")
INSTANCE HealthOps

VARIABLE l
Init == l = 1
Next == l <= Len(Trace) /\ l' = l + 1
Spec == Init /\ [][Next]_l

Cur == Trace[l - 1]
G(r) == [ex |-> [i \in 1..r.n |-> r.ex[i]], own |-> [i \in 1..r.n |-> r.own[i]], refs |-> [i \in 1..r.n |-> r.refs[i]]]
SetOf(s) == {s[i] : i \in 1..Len(s)}

\* CheckStorageHealth succeeds exactly on the healthy storages, and then returns the true roots
HealthVerdict == l > 1 =>
  LET r == Cur  g == G(r) IN
  /\ r.res.ok = Healthy(g, r.expected)
  /\ (r.res.ok => SetOf(r.res.roots) = Roots(g))
\* GetAllChildReferences returns exactly the resolvable and the broken references reachable from the slab
ChildReferences == l > 1 =>
  LET r == Cur  g == G(r) IN
  \A k \in 1..Len(r.gacr) :
    LET q == r.gacr[k]  c == ChildRefs(g, q.id) IN
    q.ok /\ SetOf(q.refs) = c[1] /\ SetOf(q.broken) = c[2]

TraceAccepted ==
  LET d == TLCGet("stats").diameter IN
  IF d - 1 = Len(Trace) THEN TRUE
  ELSE Print(<<"REJECTED_AT", d, Trace[d].t, Trace[d].ev>>, FALSE)
=============================================================================
