----------------------------- MODULE Thresholds -----------------------------
(***************************************************************************)
(* Slab-size band and inline limits of onflow/atree as functions of the    *)
(* configured slab size (settings.go setThreshold, array_size_consts.go,   *)
(* map_size_consts.go).  Prefix constants mirror the fixed-width encodings.*)
(***************************************************************************)
EXTENDS Integers

MinSlabSize == 256
MaxSlabSize == 32768

MinOf(t) == t \div 2
MaxOf(t) == (3 * t) \div 2

\* array
ArrayDataPrefix        == 21   \* version+flag (2) + next id (16) + element array head (3)
ArrayRootDataPrefix    == 5    \* version+flag (2) + element array head (3)
ArrayInlinedPrefix     == 17   \* tag (2) + array head (1) + extra data index (2) + value id head (1) + value id (8) + element head (3)
ArrayMetaPrefix        == 12   \* version+flag (2) + address (8) + child count (2)
ArrayHeaderSize        == 14   \* slab index (8) + count (4) + size (2)
\* map
MapDataPrefix          == 18   \* version+flag (2) + next id (16)
MapRootDataPrefix      == 2
MapInlinedPrefix       == 14   \* tag (2) + array head (1) + extra data index (2) + value id head (1) + value id (8)
MapMetaPrefix          == 12
MapHeaderSize          == 18   \* slab index (8) + size (2) + first digest (8)
HkeyElementsPrefix     == 8
SingleElementsPrefix   == 6
DigestSize             == 8
SingleElementPrefix    == 1
InlineGroupPrefix      == 2
ExternalGroupPrefix    == 2
SlabIDStorableSize     == 19   \* tag (2) + byte string head (1) + slab id (16)
ExternalGroupSize      == ExternalGroupPrefix + SlabIDStorableSize

MaxInlineArrayElem(t) == (t - ArrayDataPrefix) \div 2
MaxInlineMapElem(t)   == (t - MapDataPrefix - HkeyElementsPrefix) \div 2 - DigestSize
MaxInlineMapKey(t)    == (MaxInlineMapElem(t) - SingleElementPrefix) \div 2
MaxInlineMapValue(t, ksz) == MaxInlineMapElem(t) - ksz - SingleElementPrefix

(* Lemmas behind C05, checked by TLC for every legal slab size (MC_Thresholds). *)
\* a slab above the maximum holds at least two elements, so it can always be split
TwoArrayElemsFit(t) == ArrayDataPrefix + 2 * MaxInlineArrayElem(t) <= t
TwoMapElemsFit(t)   == MapDataPrefix + HkeyElementsPrefix + 2 * (DigestSize + MaxInlineMapElem(t)) <= t
\* a non-underflowing index slab has at least two children (precondition of the merge table)
MetaHasTwoArray(t)  == ArrayMetaPrefix + ArrayHeaderSize < MinOf(t)
MetaHasTwoMap(t)    == MapMetaPrefix + MapHeaderSize < MinOf(t)
\* header size fields are two bytes
FitsUint16(t)       == MaxOf(t) <= 65535
\* merging an underflowing slab with a sibling that cannot lend stays within the maximum:
\* a sibling that cannot lend is smaller than Min + (largest element), the underflowing one is < Min
MergeBoundArray(t)  == (MinOf(t) - 1) + (MinOf(t) - 1 + MaxInlineArrayElem(t)) - ArrayDataPrefix <= MaxOf(t)
MergeBoundMap(t)    == (MinOf(t) - 1) + (MinOf(t) - 1 + DigestSize + MaxInlineMapElem(t)) - MapDataPrefix - HkeyElementsPrefix <= MaxOf(t)
\* an inlined child at the limit is an admissible element; a key at the limit leaves room for a value
KeyLeavesRoom(t)    == MaxInlineMapValue(t, MaxInlineMapKey(t)) >= MaxInlineMapKey(t)
\* a slab reference is always an admissible element (large values can always be externalised)
RefFits(t)          == SlabIDStorableSize <= MaxInlineArrayElem(t) /\ SlabIDStorableSize <= MaxInlineMapKey(t)
                       /\ ExternalGroupSize <= MaxInlineMapElem(t)

AllLemmas(t) == /\ TwoArrayElemsFit(t) /\ TwoMapElemsFit(t) /\ MetaHasTwoArray(t) /\ MetaHasTwoMap(t)
                /\ FitsUint16(t) /\ MergeBoundArray(t) /\ MergeBoundMap(t) /\ KeyLeavesRoom(t) /\ RefFits(t)
=============================================================================
