SPECIFICATION Spec
CONSTANTS
  StrictA = FALSE
INVARIANTS AllValid
POSTCONDITION TraceAccepted
CHECK_DEADLOCK FALSE
