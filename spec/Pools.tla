-------------------------------- MODULE Pools --------------------------------
(***************************************************************************)
(* C16: life cycle of the process-wide pooled objects (digesters, encode   *)
(* buffers).  An object is free or owned by one goroutine; it is handed    *)
(* out only when free, used only by its owner, put back only by its owner  *)
(* and only once.  This module is the acceptor of the hook events recorded *)
(* at the pools while client goroutines run concurrently; the last records *)
(* compare every client's results with a solo run of the same workload.    *)
(***************************************************************************)
EXTENDS Integers, Sequences, FiniteSets, Json, TLC

Trace == ndJsonDeserialize("trace.ndjson")
Objects == {Trace[i].o : i \in {j \in 1..Len(Trace) : Trace[j].ev = "Pool"}}

VARIABLES l, owner
Init == l = 1 /\ owner = [o \in Objects |-> 0]

Get(g, o) == owner[o] = 0 /\ owner' = [owner EXCEPT ![o] = g]       \* never handed out while someone owns it
Use(g, o) == owner[o] = g /\ UNCHANGED owner                        \* used only by its owner, never after put
Put(g, o) == owner[o] = g /\ owner' = [owner EXCEPT ![o] = 0]       \* put back by its owner, once

Next ==
  /\ l <= Len(Trace) /\ l' = l + 1
  /\ LET r == Trace[l] IN
     IF r.ev = "Pool" THEN
        CASE r.kind \in {"digester.get", "buffer.get"} -> Get(r.g, r.o)
          [] r.kind = "digester.use" -> Use(r.g, r.o)
          [] r.kind \in {"digester.put", "buffer.put"} -> Put(r.g, r.o)
          [] OTHER -> FALSE
     ELSE UNCHANGED owner
Spec == Init /\ [][Next]_<<l, owner>>

Cur == Trace[l - 1]
\* every client obtains exactly the results (and registers) it obtains running alone
ClientsAsSolo == (l > 1 /\ Cur.ev = "Client") => (Cur.conc = Cur.solo /\ Cur.regsconc = Cur.regssolo)
TraceAccepted ==
  LET d == TLCGet("stats").diameter IN
  IF d - 1 = Len(Trace) THEN TRUE
  ELSE Print(<<"REJECTED_AT", d, Trace[d].t, Trace[d].ev>>, FALSE)
=============================================================================
