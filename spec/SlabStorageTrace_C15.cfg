SPECIFICATION TraceSpec
CONSTANTS
  Ids <- TIds
  Owner <- TOwner
  Index <- TIndex
  Versions <- TVersions
  MaxFaults = 1000000
  SizeOf <- TSizeOf
  StrictEvents = {"Store","Remove","StoreUndefined","RemoveUndefined","Retrieve","RetrieveFail","RetrieveIfLoaded","RetrieveIgnoringDeltas","DropDeltas","DropCache","Recreate","BatchPreload","Observe","ObserveOwner","CommitBegin","Call","CallFail","CommitEnd"}
INVARIANTS CacheCoherent ReadYourWrites CommitOK DropReverts
PROPERTIES TViewStable
POSTCONDITION TraceAccepted
CHECK_DEADLOCK FALSE
