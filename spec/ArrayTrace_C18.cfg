SPECIFICATION Spec
CONSTANTS
  T <- TraceT
  StrictA = TRUE
  CheckCat = TRUE
INVARIANTS RefinesSeq NoTraceOfRejected
POSTCONDITION TraceAccepted
CHECK_DEADLOCK FALSE
