SPECIFICATION Spec
CONSTANTS
  T <- TraceT
  StrictA = TRUE
  CheckCat = TRUE
INVARIANTS RefinesSeq
POSTCONDITION TraceAccepted
CHECK_DEADLOCK FALSE
