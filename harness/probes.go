package main

import (
	"math/rand"

	"github.com/onflow/atree"
	testutils "github.com/onflow/atree/test_utils"
)

// Probes: observations made at the end of a history (C13 iterators, C17 bulk build / copy, C18 rejected requests).

type IterObs struct {
	Name  string `json:"name"`
	Class string `json:"class"`
	S     int    `json:"s"`
	E     int    `json:"e"`
	Ids   []int  `json:"ids"`
}

type ProbeObs struct {
	Iters   []IterObs `json:"iters"`   // every enumeration flavour, full
	Ranges  []IterObs `json:"ranges"`  // range iterations incl. invalid bounds
	Partial []IterObs `json:"partial"` // loaded-value iteration with a subset of slabs loaded
	Can     bool      `json:"can"`     // CanCopyNonRefSimple
	Other   []RootObs `json:"other"`   // the container produced by a bulk build / copy (0 or 1)
	Mask    []int     `json:"mask"`    // mutable iteration: positions overwritten
	NewIds  []int     `json:"newids"`  // mutable iteration: ids of the new values (by position in mask)
}

func emptyProbe() ProbeObs {
	return ProbeObs{Iters: []IterObs{}, Ranges: []IterObs{}, Partial: []IterObs{}, Other: []RootObs{}, Mask: []int{}, NewIds: []int{}}
}

func (w *World) idsOfValues(vs []atree.Value) []int {
	out := []int{}
	for _, v := range vs {
		out = append(out, w.absOfValue(v).V)
	}
	return out
}

func obs(name string, err error, ids []int, s, e int) IterObs {
	if ids == nil {
		ids = []int{}
	}
	return IterObs{Name: name, Class: classify(err).Class, Ids: ids, S: s, E: e}
}

func drainArray(it atree.ArrayIterator, err error) ([]atree.Value, error) {
	if err != nil {
		return nil, err
	}
	var out []atree.Value
	for {
		v, err := it.Next()
		if err != nil {
			return out, err
		}
		if v == nil {
			return out, nil
		}
		out = append(out, v)
	}
}

// arrayIterProbe runs every enumeration flavour and a set of ranges on the array.
func (w *World) arrayIterProbe(a *atree.Array, rng *rand.Rand) ProbeObs {
	p := emptyProbe()
	collect := func(f func(fn atree.ArrayIterationFunc) error) ([]atree.Value, error) {
		var out []atree.Value
		err := f(func(v atree.Value) (bool, error) { out = append(out, v); return true, nil })
		return out, err
	}
	vs, err := collect(a.IterateReadOnly)
	p.Iters = append(p.Iters, obs("IterateReadOnly", err, w.idsOfValues(vs), 0, 0))
	vs, err = collect(a.Iterate)
	p.Iters = append(p.Iters, obs("Iterate", err, w.idsOfValues(vs), 0, 0))
	vs, err = collect(a.IterateReadOnlyLoadedValues)
	p.Iters = append(p.Iters, obs("IterateReadOnlyLoadedValues(all loaded)", err, w.idsOfValues(vs), 0, 0))
	vs, err = drainArray(a.ReadOnlyIterator())
	p.Iters = append(p.Iters, obs("ReadOnlyIterator", err, w.idsOfValues(vs), 0, 0))
	vs, err = drainArray(a.Iterator())
	p.Iters = append(p.Iters, obs("Iterator", err, w.idsOfValues(vs), 0, 0))
	n := int(a.Count())
	var gets []atree.Value
	var gerr error
	for i := 0; i < n; i++ {
		v, err := a.Get(uint64(i))
		if err != nil {
			gerr = err
			break
		}
		gets = append(gets, v)
	}
	p.Iters = append(p.Iters, obs("Get(0..n-1)", gerr, w.idsOfValues(gets), 0, 0))
	// ranges: all pairs for small arrays (including invalid ones), boundary and random pairs beyond
	var pairs [][2]int
	if n <= 6 {
		for s := 0; s <= n+1; s++ {
			for e := 0; e <= n+1; e++ {
				pairs = append(pairs, [2]int{s, e})
			}
		}
	} else {
		pairs = [][2]int{{0, n}, {0, 0}, {n, n}, {n, n + 1}, {n + 1, n + 1}, {1, 0}, {n / 2, n/2 - 1}, {0, 1}, {n - 1, n}}
		for k := 0; k < 12; k++ {
			s := rng.Intn(n + 1)
			e := s + rng.Intn(n+1-s)
			pairs = append(pairs, [2]int{s, e})
		}
	}
	for k, pr := range pairs {
		s, e := uint64(pr[0]), uint64(pr[1])
		switch k % 3 {
		case 0:
			vs, err = collect(func(fn atree.ArrayIterationFunc) error { return a.IterateReadOnlyRange(s, e, fn) })
			p.Ranges = append(p.Ranges, obs("IterateReadOnlyRange", err, w.idsOfValues(vs), pr[0], pr[1]))
		case 1:
			vs, err = collect(func(fn atree.ArrayIterationFunc) error { return a.IterateRange(s, e, fn) })
			p.Ranges = append(p.Ranges, obs("IterateRange", err, w.idsOfValues(vs), pr[0], pr[1]))
		default:
			vs, err = drainArray(a.ReadOnlyRangeIterator(s, e))
			p.Ranges = append(p.Ranges, obs("ReadOnlyRangeIterator", err, w.idsOfValues(vs), pr[0], pr[1]))
		}
	}
	// early termination: a callback that stops after k elements must have seen exactly the first k (recorded as the range [0, k));
	// the mutable range iterator object over [s, e)
	if n > 0 {
		for _, k := range []int{1, (n + 1) / 2, n} {
			for fi, f := range []func(atree.ArrayIterationFunc) error{a.IterateReadOnly, a.Iterate} {
				var got []atree.Value
				err := f(func(v atree.Value) (bool, error) {
					got = append(got, v)
					return len(got) < k, nil
				})
				p.Ranges = append(p.Ranges, obs([]string{"IterateReadOnly(stop)", "Iterate(stop)"}[fi], err, w.idsOfValues(got), 0, k))
			}
		}
		s, e := n/3, n-n/4
		if s <= e {
			vs, err = drainArray(a.RangeIterator(uint64(s), uint64(e)))
			p.Ranges = append(p.Ranges, obs("RangeIterator", err, w.idsOfValues(vs), s, e))
		}
	}
	return p
}

func drainMap(it atree.MapIterator, err error) ([]atree.Value, error) {
	if err != nil {
		return nil, err
	}
	var out []atree.Value
	for {
		k, v, err := it.Next()
		if err != nil {
			return out, err
		}
		if k == nil {
			return out, nil
		}
		out = append(out, k, v)
	}
}

func (w *World) mapIterProbe(m *atree.OrderedMap) ProbeObs {
	p := emptyProbe()
	kv := func(f func(fn atree.MapEntryIterationFunc) error) ([]atree.Value, error) {
		var out []atree.Value
		err := f(func(k, v atree.Value) (bool, error) { out = append(out, k, v); return true, nil })
		return out, err
	}
	one := func(f func(fn atree.MapElementIterationFunc) error) ([]atree.Value, error) {
		var out []atree.Value
		err := f(func(v atree.Value) (bool, error) { out = append(out, v); return true, nil })
		return out, err
	}
	cmp, hip := testutils.CompareValue, testutils.GetHashInput
	vs, err := kv(m.IterateReadOnly)
	p.Iters = append(p.Iters, obs("IterateReadOnly", err, w.idsOfValues(vs), 0, 0))
	vs, err = kv(func(fn atree.MapEntryIterationFunc) error { return m.Iterate(cmp, hip, fn) })
	p.Iters = append(p.Iters, obs("Iterate", err, w.idsOfValues(vs), 0, 0))
	vs, err = kv(m.IterateReadOnlyLoadedValues)
	p.Iters = append(p.Iters, obs("IterateReadOnlyLoadedValues(all loaded)", err, w.idsOfValues(vs), 0, 0))
	vs, err = drainMap(m.ReadOnlyIterator())
	p.Iters = append(p.Iters, obs("ReadOnlyIterator", err, w.idsOfValues(vs), 0, 0))
	vs, err = drainMap(m.Iterator(cmp, hip))
	p.Iters = append(p.Iters, obs("Iterator", err, w.idsOfValues(vs), 0, 0))
	{
		// lookups agree with enumeration: Get of every key, in enumeration order
		var keys, kvs []atree.Value
		_ = m.IterateReadOnlyKeys(func(k atree.Value) (bool, error) { keys = append(keys, k); return true, nil })
		var gerr error
		for _, k := range keys {
			v, err := m.Get(cmp, hip, k)
			if err != nil {
				gerr = err
				break
			}
			kvs = append(kvs, k, v)
		}
		p.Iters = append(p.Iters, obs("Get(every key)", gerr, w.idsOfValues(kvs), 0, 0))
	}
	// keys-only and values-only flavours (S = 1: keys, S = 2: values)
	vs, err = one(m.IterateReadOnlyKeys)
	p.Ranges = append(p.Ranges, obs("IterateReadOnlyKeys", err, w.idsOfValues(vs), 1, 0))
	vs, err = one(func(fn atree.MapElementIterationFunc) error { return m.IterateKeys(cmp, hip, fn) })
	p.Ranges = append(p.Ranges, obs("IterateKeys", err, w.idsOfValues(vs), 1, 0))
	vs, err = one(m.IterateReadOnlyValues)
	p.Ranges = append(p.Ranges, obs("IterateReadOnlyValues", err, w.idsOfValues(vs), 2, 0))
	vs, err = one(func(fn atree.MapElementIterationFunc) error { return m.IterateValues(cmp, hip, fn) })
	p.Ranges = append(p.Ranges, obs("IterateValues", err, w.idsOfValues(vs), 2, 0))
	return p
}

// partialProbe: commit, then for several subsets of the non-root slabs open a brand-new storage, load the root and the
// subset, and enumerate the loaded values; each enumeration must be an in-order subsequence of the full one.
func (w *World) partialProbe(h *Handle, rng *rand.Rand) []IterObs {
	out := []IterObs{}
	var rootID atree.SlabID
	if h.Kind == "A" {
		rootID = h.Arr.SlabID()
	} else {
		rootID = h.Map.SlabID()
	}
	var others []atree.SlabID
	for _, id := range w.Ledger.SortedIDs() {
		if id != rootID {
			others = append(others, id)
		}
	}
	nsub := 1
	if len(others) <= 30 {
		nsub = 1 << uint(len(others))
	}
	var masks []int
	if len(others) > 30 {
		// too many slabs for a bit mask: twelve random subsets (chosen slab by slab below)
		masks = make([]int, 12)
	} else if len(others) <= 5 {
		for m := 0; m < nsub; m++ {
			masks = append(masks, m)
		}
	} else {
		masks = []int{0, nsub - 1}
		for k := 0; k < 10; k++ {
			masks = append(masks, rng.Intn(nsub))
		}
	}
	for _, mask := range masks {
		st := newStorage(w.Ledger.Clone())
		ids := []atree.SlabID{rootID}
		for i, id := range others {
			if len(others) > 30 {
				if rng.Intn(2) == 0 {
					ids = append(ids, id)
				}
			} else if mask&(1<<uint(i)) != 0 {
				ids = append(ids, id)
			}
		}
		must(st.BatchPreload(ids, 2))
		cw := &World{T: w.T, Th: w.Th, St: st, canon: w.canon, Addr: w.Addr}
		var vs []atree.Value
		var err error
		if h.Kind == "A" {
			var a *atree.Array
			a, err = atree.NewArrayWithRootID(st, rootID)
			if err == nil {
				err = a.IterateReadOnlyLoadedValues(func(v atree.Value) (bool, error) { vs = append(vs, v); return true, nil })
			}
		} else {
			var m *atree.OrderedMap
			var db atree.DigesterBuilder = atree.NewDefaultDigesterBuilder()
			if h.Dig != nil {
				db = h.Dig
			}
			m, err = atree.NewMapWithRootID(st, rootID, db)
			if err == nil {
				err = m.IterateReadOnlyLoadedValues(func(k, v atree.Value) (bool, error) { vs = append(vs, k, v); return true, nil })
			}
		}
		out = append(out, obs("IterateReadOnlyLoadedValues(partial)", err, cw.idsOfValues(vs), len(ids), len(others)+1))
	}
	return out
}

// ---------------------------------------------------------------- bulk build, copy (C17) and mutable iteration (C13)

func (w *World) observeOther(name, kind string, a *atree.Array, m *atree.OrderedMap, dig *TableDigesterBuilder) []RootObs {
	tmp := &World{T: w.T, Th: w.Th, Ledger: w.Ledger, St: w.St, canon: w.canon, Addr: w.Addr, H: map[string]*Handle{}}
	tmp.H[name] = &Handle{Name: name, Kind: kind, Arr: a, Map: m, Dig: dig}
	tmp.Roots = []string{name}
	roots, _ := tmp.Observe()
	return roots
}

// batchArray builds a new array from the source's read-only iterator.
func (w *World) batchArray(src *atree.Array) (*atree.Array, error) {
	it, err := src.ReadOnlyIterator()
	if err != nil {
		return nil, err
	}
	return atree.NewArrayFromBatchData(w.St, w.Addr, src.Type(), func() (atree.Value, error) { return it.Next() })
}

func (w *World) batchMap(src *atree.OrderedMap, dig *TableDigesterBuilder) (*atree.OrderedMap, error) {
	it, err := src.ReadOnlyIterator()
	if err != nil {
		return nil, err
	}
	var db atree.DigesterBuilder = atree.NewDefaultDigesterBuilder() // sources driven with the built-in (pooled) digester
	if dig != nil {
		db = dig
	}
	return atree.NewMapFromBatchData(w.St, w.Addr, db, src.Type(), testutils.CompareValue, testutils.GetHashInput, src.Seed(),
		func() (atree.Value, atree.Value, error) { return it.Next() })
}

// lookupsAgree counts the entries of src that a lookup in dst finds with the same value: a container built from a stream must
// be usable as a dictionary, not only enumerable.
func (w *World) lookupsAgree(src, dst *atree.OrderedMap) int {
	n := 0
	_ = src.IterateReadOnly(func(k, v atree.Value) (bool, error) {
		got, err := dst.Get(testutils.CompareValue, testutils.GetHashInput, k)
		if err == nil && w.absOfValue(got).V == w.absOfValue(v).V {
			n++
		}
		return true, nil
	})
	return n
}

// disposeArray / disposeMap release a container the harness created (deep).
func (w *World) disposeArray(a *atree.Array) {
	id := a.SlabID()
	must(a.PopIterate(func(st atree.Storable) { w.dispose(st) }))
	must(w.St.Remove(id))
}

func (w *World) disposeMap(m *atree.OrderedMap) {
	id := m.SlabID()
	must(m.PopIterate(func(k, v atree.Storable) { w.dispose(k); w.dispose(v) }))
	must(w.St.Remove(id))
}

// RunProbes appends probe records for the single root container of an array / map history.
// which: subset of {"iter", "partial", "batch", "copy", "mutiter"}.
func (w *World) RunProbes(t int, root string, which map[string]bool, rng *rand.Rand, write func(Rec)) {
	h := w.handle(root)
	ev := func(s string) string {
		if h.Kind == "A" {
			return "A" + s
		}
		return "M" + s
	}
	if which["iter"] {
		r := w.rec(t, ev("IterProbe"), Op{H: root}, Res{Class: "ok"})
		if h.Kind == "A" {
			r.Probe = w.arrayIterProbe(h.Arr, rng)
		} else {
			r.Probe = w.mapIterProbe(h.Map)
		}
		r.Roots, r.St = w.Observe()
		write(r)
	}
	if which["batch"] {
		var other []RootObs
		var err error
		var ba *atree.Array
		var bm *atree.OrderedMap
		if h.Kind == "A" {
			ba, err = w.batchArray(h.Arr)
			if err == nil {
				other = w.observeOther("batch", "A", ba, nil, nil)
			}
		} else {
			bm, err = w.batchMap(h.Map, h.Dig)
			if err == nil {
				other = w.observeOther("batch", "M", nil, bm, h.Dig)
				other[0].Lk = w.lookupsAgree(h.Map, bm)
			}
		}
		r := w.rec(t, ev("Batch"), Op{H: root}, resOf(err))
		if other != nil {
			r.Probe.Other = other
		}
		write(r)
		// independence: mutate the result, then dispose of it; the source must be unaffected and nothing may leak
		if err == nil {
			if h.Kind == "A" {
				must(ba.Append(mkValue(ElemSpec{ID: 999999, Sz: 60})))
				w.disposeArray(ba)
			} else {
				w.disposeMap(bm)
			}
			write(w.rec(t, ev("OtherDisposed"), Op{H: root}, Res{Class: "ok"}))
		}
	}
	if which["copy"] {
		var can bool
		var other []RootObs
		var err error
		var ca *atree.Array
		var cm *atree.OrderedMap
		if h.Kind == "A" {
			can = h.Arr.CanCopyNonRefSimple()
			ca, err = h.Arr.CopyNonRefSimple(w.Addr)
			if err == nil {
				other = w.observeOther("copy", "A", ca, nil, nil)
			}
		} else {
			can = h.Map.CanCopyNonRefSimple()
			var dig *TableDigesterBuilder
			var db atree.DigesterBuilder = atree.NewDefaultDigesterBuilder() // source driven with the built-in digester
			if h.Dig != nil {
				dig = &TableDigesterBuilder{Table: w.DigTable, Default: w.DigDefault}
				db = dig
			}
			cm, err = h.Map.CopyNonRefSimple(w.Addr, db)
			if err == nil {
				other = w.observeOther("copy", "M", nil, cm, dig)
				other[0].Lk = w.lookupsAgree(h.Map, cm)
			}
		}
		r := w.rec(t, ev("Copy"), Op{H: root}, resOf(err))
		r.Probe.Can = can
		if other != nil {
			r.Probe.Other = other
		}
		write(r)
		if err == nil {
			if h.Kind == "A" {
				// mutate the copy (remove its first element, append one), then dispose of it
				if ca.Count() > 0 {
					old, rerr := ca.Remove(0)
					must(rerr)
					w.dispose(old)
				}
				must(ca.Append(mkValue(ElemSpec{ID: 999998, Sz: 40})))
				w.disposeArray(ca)
			} else {
				// remove the first key (in enumeration order) from the copy, then dispose of it
				var firstKey atree.Value
				_ = cm.IterateReadOnlyKeys(func(k atree.Value) (bool, error) { firstKey = k; return false, nil })
				if firstKey != nil {
					k, v, rerr := cm.Remove(testutils.CompareValue, testutils.GetHashInput, firstKey)
					must(rerr)
					w.dispose(k)
					w.dispose(v)
				}
				w.disposeMap(cm)
			}
			write(w.rec(t, ev("OtherDisposed"), Op{H: root}, Res{Class: "ok"}))
		}
	}
	if which["mutiter"] && h.Kind == "A" {
		// mutable iteration overwriting the current element at a subset of positions (sizes chosen to move slabs around)
		n := int(h.Arr.Count())
		p := emptyProbe()
		var yielded []atree.Value
		sizes := []int{12, 60, encodableSize(int(w.Th.MaxInlineArrayElt)), encodableSize(int(w.Th.MaxInlineArrayElt) + 13)}
		it, err := h.Arr.Iterator()
		i := 0
		for err == nil {
			var v atree.Value
			v, err = it.Next()
			if err != nil || v == nil {
				break
			}
			yielded = append(yielded, v)
			if i < n && rng.Intn(2) == 0 {
				nid := 900000 + i
				old, serr := h.Arr.Set(uint64(i), mkValue(ElemSpec{ID: nid, Sz: sizes[rng.Intn(len(sizes))]}))
				if serr != nil {
					err = serr
					break
				}
				w.dispose(old)
				p.Mask = append(p.Mask, i)
				p.NewIds = append(p.NewIds, nid)
			}
			i++
		}
		p.Iters = []IterObs{obs("Iterator+Set(current)", err, w.idsOfValues(yielded), 0, 0)}
		r := w.rec(t, "AMutIter", Op{H: root}, resOf(err))
		r.Probe = p
		write(r)
	}
	if which["mutiter"] && h.Kind == "M" {
		p := emptyProbe()
		var yielded []atree.Value
		sizes := []int{12, 40, 60, 90}
		it, err := h.Map.Iterator(testutils.CompareValue, testutils.GetHashInput)
		i := 0
		for err == nil {
			var k, v atree.Value
			k, v, err = it.Next()
			if err != nil || k == nil {
				break
			}
			yielded = append(yielded, k, v)
			if rng.Intn(2) == 0 {
				nid := (900000+i)*1000 + sizes[rng.Intn(len(sizes))]
				old, serr := h.Map.Set(testutils.CompareValue, testutils.GetHashInput, k, mkValue(ElemSpec{ID: nid, Sz: nid % 1000}))
				if serr != nil {
					err = serr
					break
				}
				w.dispose(old)
				p.Mask = append(p.Mask, w.absOfValue(k).V)
				p.NewIds = append(p.NewIds, nid)
			}
			i++
		}
		p.Iters = []IterObs{obs("Iterator+Set(current key)", err, w.idsOfValues(yielded), 0, 0)}
		r := w.rec(t, "MMutIter", Op{H: root}, resOf(err))
		r.Probe = p
		write(r)
	}
	if which["partial"] {
		_, res := w.Exec(Op{Op: "commit", Mode: "det", W: 2})
		write(w.rec(t, "Commit", Op{Op: "commit", Mode: "det"}, res))
		r := w.rec(t, ev("PartialProbe"), Op{H: root}, Res{Class: "ok"})
		r.Probe.Partial = w.partialProbe(h, rng)
		write(r)
	}
}
