package main

import (
	"fmt"

	"github.com/onflow/atree"
	testutils "github.com/onflow/atree/test_utils"
)

// TableDigesterBuilder assigns caller-chosen digest vectors (4 levels) to keys by element id,
// through the same public interface the production digester uses (C12).
type TableDigesterBuilder struct {
	Table   map[int][4]uint64
	Default func(id int) [4]uint64
	Calls   int
}

var _ atree.DigesterBuilder = &TableDigesterBuilder{}

func (b *TableDigesterBuilder) SetSeed(uint64, uint64) {}

func keyID(v atree.Value) int {
	for {
		if sv, ok := v.(testutils.SomeValue); ok {
			v = sv.Value
			continue
		}
		break
	}
	switch x := v.(type) {
	case testutils.StringValue:
		return idOfString(x.String())
	case testutils.Uint64Value:
		return int(x)
	}
	return -1
}

func (b *TableDigesterBuilder) Vec(id int) [4]uint64 {
	if d, ok := b.Table[id]; ok {
		return d
	}
	if b.Default != nil {
		return b.Default(id)
	}
	return [4]uint64{uint64(id), uint64(id), uint64(id), uint64(id)}
}

func (b *TableDigesterBuilder) Digest(hip atree.HashInputProvider, value atree.Value) (atree.Digester, error) {
	b.Calls++
	var scratch [32]byte
	if _, err := hip(value, scratch[:]); err != nil {
		return nil, err
	}
	return &tableDigester{d: b.Vec(keyID(value))}, nil
}

type tableDigester struct{ d [4]uint64 }

func (t *tableDigester) DigestPrefix(level uint) ([]atree.Digest, error) {
	if level > 4 {
		return nil, fmt.Errorf("level %d out of range", level)
	}
	var p []atree.Digest
	for i := uint(0); i < level; i++ {
		p = append(p, atree.Digest(t.d[i]))
	}
	return p, nil
}

func (t *tableDigester) Digest(level uint) (atree.Digest, error) {
	if level >= 4 {
		return 0, fmt.Errorf("level %d out of range", level)
	}
	return atree.Digest(t.d[level]), nil
}

func (t *tableDigester) Reset()       {}
func (t *tableDigester) Levels() uint { return 4 }
