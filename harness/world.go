package main

import (
	"bytes"
	"crypto/sha256"
	"encoding/hex"
	"fmt"
	"sort"
	"strconv"
	"strings"

	"github.com/fxamacker/cbor/v2"
	"github.com/onflow/atree"
	testutils "github.com/onflow/atree/test_utils"
)

// World is one real storage with named container handles; every engine's driver runs
// operations through it and asks it for projections of the real state.

type Handle struct {
	Name   string
	Kind   string // "A" | "M"
	Arr    *atree.Array
	Map    *atree.OrderedMap
	Parent string // name of the handle it was obtained through ("" for roots)
	Dig    *TableDigesterBuilder
}

type World struct {
	T       uint32
	Th      atree.VerifThresholdValues
	Ledger  *LedgerSim
	St      *atree.PersistentSlabStorage
	Addr    atree.Address
	H       map[string]*Handle
	Roots   []string // names of root handles (live roots and detached containers kept by the caller)
	canon   map[atree.SlabID]int
	Workers int
	// digest assignment for root maps created through this world
	DigTable   map[int][4]uint64
	DigDefault func(id int) [4]uint64
	lastCalls  []CallObs
	// the roots as observed from the registers at the last successful commit (for Load records)
	committedRoots     []RootObs
	commitKnown        bool
	pendingColdRefresh bool
	// what the caller knows after a crash: the roots it held at the last successful commit
	savedRoots  []savedRoot
	NameOfVid   map[int]string // canonical value id -> handle name given by the history
	Undecodable int            // registers that failed to decode while projecting
	Dangling    int            // references that did not resolve (or closed a cycle) while projecting
	ColdReach   []int          // last cold observation: identifiers reached from the roots in the registers alone
	ColdBad     int            // last cold observation: unresolved references + undecodable registers
	RawIDs      bool           // cid() returns a function of the raw identifier instead of first-visit numbering
}

type savedRoot struct {
	Name string
	Kind string
	ID   atree.SlabID
	Dig  *TableDigesterBuilder
}

func (w *World) rememberRoots() {
	w.savedRoots = nil
	for _, name := range w.Roots {
		h := w.H[name]
		sr := savedRoot{Name: name, Kind: h.Kind, Dig: h.Dig}
		if h.Kind == "A" {
			sr.ID = h.Arr.SlabID()
		} else {
			sr.ID = h.Map.SlabID()
		}
		w.savedRoots = append(w.savedRoots, sr)
	}
}

func NewWorld(T uint32) *World {
	th := atree.VerifSetThreshold(T)
	w := &World{T: T, Th: th, Ledger: NewLedgerSim(), H: map[string]*Handle{}, canon: map[atree.SlabID]int{}, Workers: 3}
	w.Addr = atree.Address{0, 0, 0, 0, 0, 0, 0, 1}
	w.St = newStorage(w.Ledger)
	return w
}

// ---------------------------------------------------------------- values

type ElemSpec struct {
	ID  int    `json:"id"`
	Sz  int    `json:"sz"`
	W   int    `json:"w"`
	New string `json:"new"` // "A" | "M": a new empty container is created and used as the value
	Ref string `json:"ref"` // name of an existing (detached) container handle to attach
	Vid int    `json:"vid"` // filled in by the harness: canonical value id of the container used as the value
	Ti  string `json:"ti"`  // filled in by the harness: type info token of the container used as the value
}

// strLenForSize returns the string length whose CBOR text encoding takes sz bytes.
func strLenForSize(sz int) (int, bool) {
	switch {
	case sz >= 1 && sz <= 24:
		return sz - 1, true
	case sz >= 26 && sz <= 257:
		return sz - 2, true
	case sz >= 259 && sz <= 65538:
		return sz - 3, true
	}
	return 0, false
}

// encodableSize returns sz, or the next size some string encodes to (25 and 258 are not CBOR text-string sizes).
func encodableSize(sz int) int {
	for {
		if _, ok := strLenForSize(sz); ok {
			return sz
		}
		sz++
	}
}

func mkString(id, sz int) testutils.StringValue {
	n, ok := strLenForSize(sz)
	if !ok {
		panic(fmt.Sprintf("no string of encoded size %d", sz))
	}
	s := strconv.Itoa(id) + "#"
	if len(s) > n {
		panic(fmt.Sprintf("size %d too small for id %d", sz, id))
	}
	s += strings.Repeat(".", n-len(s))
	return testutils.NewStringValue(s)
}

func mkValue(e ElemSpec) atree.Value {
	var v atree.Value = mkString(e.ID, e.Sz)
	for i := 0; i < e.W; i++ {
		v = testutils.NewSomeValue(v)
	}
	return v
}

func idOfString(s string) int {
	i := strings.IndexByte(s, '#')
	if i < 0 {
		return -1
	}
	n, err := strconv.Atoi(s[:i])
	if err != nil {
		return -1
	}
	return n
}

// ---------------------------------------------------------------- peeking at slabs

// peek returns the slab visible under id without changing the cache.
func (w *World) peek(id atree.SlabID) atree.Slab {
	if s, ok := atree.VerifDeltas(w.St)[id]; ok {
		return s
	}
	if s, ok := atree.VerifCache(w.St)[id]; ok {
		return s
	}
	b, ok := w.Ledger.Regs[id]
	if !ok {
		return nil
	}
	s, err := atree.DecodeSlab(id, b, decMode(), testutils.DecodeStorable, decodeTypeInfo)
	if err != nil {
		// a register the library wrote and cannot read back: projected as a missing slab (the trace specification rejects the
		// dangling reference / the register that does not re-encode), not a failure of the harness
		w.Undecodable++
		return nil
	}
	return s
}

// ViewIDs returns every identifier that currently resolves to a slab (write set over ledger).
func (w *World) ViewIDs() []atree.SlabID {
	seen := map[atree.SlabID]bool{}
	var ids []atree.SlabID
	for id, s := range atree.VerifDeltas(w.St) {
		seen[id] = true
		if s != nil {
			ids = append(ids, id)
		}
	}
	for id := range w.Ledger.Regs {
		if !seen[id] {
			ids = append(ids, id)
		}
	}
	sort.Slice(ids, func(i, j int) bool { return ids[i].Compare(ids[j]) < 0 })
	return ids
}

func (w *World) cid(id atree.SlabID) int {
	if id == atree.SlabIDUndefined {
		return 0
	}
	if w.RawIDs {
		// multi-run comparisons: identifiers must not depend on the order in which slabs are first looked at
		return int(id.AddressAsUint64()%1000)*1000000 + int(id.IndexAsUint64()%1000000)
	}
	if n, ok := w.canon[id]; ok {
		return n
	}
	n := len(w.canon) + 1
	w.canon[id] = n
	return n
}

// ---------------------------------------------------------------- projection (forest F)

type Hdr struct {
	ID    int `json:"id"`
	Sz    int `json:"sz"`
	Cnt   int `json:"cnt"`
	Sum   int `json:"sum"`
	Fk    int `json:"fk"`
	fkRaw uint64
}

type Elem struct {
	C   string  `json:"c"` // "s" scalar, "L" large scalar in its own slab, "A"/"M" inlined container, "RA"/"RM" referenced container, "u" other
	W   int     `json:"w"` // wrapper levels
	Sz  int     `json:"sz"`
	V   int     `json:"v"`   // element id (scalars) / canonical value id (containers)
	Vsz int     `json:"vsz"` // size of the value itself
	Ref int     `json:"ref"` // canonical id of the referenced slab (L, RA, RM), 0 otherwise
	Ch  []*Node `json:"ch"`
}

type MapElem struct {
	T   string    `json:"t"` // "s" single, "g" inline group, "x" external group
	Sz  int       `json:"sz"`
	K   []Elem    `json:"k"` // 0/1
	V   []Elem    `json:"v"` // 0/1
	Els []*MapEls `json:"els"`
	X   []*Node   `json:"x"`
}

type MapEls struct {
	T     string    `json:"t"` // "h" hkey elements, "l" list (no digests)
	Lvl   int       `json:"lvl"`
	Sz    int       `json:"sz"`
	Hk    []int     `json:"hk"`
	El    []MapElem `json:"el"`
	hkRaw []uint64
}

type Node struct {
	K     string    `json:"k"` // "d" | "m" | "md" | "mm" | "missing"
	ID    int       `json:"id"`
	Sz    int       `json:"sz"`
	Cnt   int       `json:"cnt"`
	Nxt   int       `json:"nxt"`
	Inl   bool      `json:"inl"`
	Root  bool      `json:"root"`
	E     []Elem    `json:"e"`
	H     []Hdr     `json:"h"`
	C     []*Node   `json:"c"`
	Fk    int       `json:"fk"`
	Any   bool      `json:"any"`
	Cg    bool      `json:"cg"`
	Seed  string    `json:"seed"`
	Els   []*MapEls `json:"els"`
	Ti    string    `json:"ti"`
	fkRaw uint64
}

type projector struct {
	w      *World
	slabs  map[int]bool // canonical ids of standalone slabs reached
	raw    map[uint64]bool
	nodes  []*Node
	els    []*MapEls
	onPath map[atree.SlabID]bool
}

func (w *World) newProjector() *projector {
	return &projector{w: w, slabs: map[int]bool{}, raw: map[uint64]bool{}}
}

func tiString(t atree.TypeInfo) string {
	switch x := t.(type) {
	case nil:
		return ""
	case testutils.SimpleTypeInfo:
		return fmt.Sprintf("S%d", x.Value())
	case testutils.CompositeTypeInfo:
		return "C" + x.Identifier()
	case compTypeInfo:
		return "C" + x.Identifier()
	}
	return fmt.Sprintf("%T", t)
}

// Digests are 64-bit; TLC integers are 32-bit.  Raw digests are collected while projecting and mapped
// afterwards: unchanged when all are small (table-driven digesters), else by rank (order and equality preserved,
// 0 stays 0), which is all the specification uses.
func (p *projector) finalize() {
	big := false
	var all []uint64
	for d := range p.raw {
		all = append(all, d)
		if d >= 1<<30 {
			big = true
		}
	}
	conv := func(d uint64) int { return int(d) }
	if big {
		sort.Slice(all, func(i, j int) bool { return all[i] < all[j] })
		rank := map[uint64]int{}
		for i, d := range all {
			rank[d] = i + 1
		}
		rank[0] = 0
		conv = func(d uint64) int { return rank[d] }
	}
	for _, n := range p.nodes {
		n.Fk = conv(n.fkRaw)
		for i := range n.H {
			n.H[i].Fk = conv(n.H[i].fkRaw)
		}
	}
	for _, e := range p.els {
		e.Hk = make([]int, len(e.hkRaw))
		for i, d := range e.hkRaw {
			e.Hk[i] = conv(d)
		}
	}
}

func (p *projector) note(d atree.Digest) uint64 {
	p.raw[uint64(d)] = true
	return uint64(d)
}

func (p *projector) nodeOfSlab(s atree.Slab) *Node {
	info := atree.VerifDescribeSlab(s)
	n := &Node{ID: p.w.cid(info.ID), Sz: int(info.Size), Cnt: int(info.Count), Nxt: p.w.cid(info.Next),
		Inl: info.Inlined, Root: info.HasExtraData, E: []Elem{}, H: []Hdr{}, C: []*Node{}, Els: []*MapEls{},
		fkRaw: p.note(info.FirstKey), Any: info.AnySize, Cg: info.CollisionGroup, Ti: tiString(info.TypeInfo)}
	p.nodes = append(p.nodes, n)
	if !info.Inlined {
		p.slabs[n.ID] = true
	}
	switch info.Kind {
	case "array_data":
		n.K = "d"
		for _, st := range info.Elements {
			n.E = append(n.E, p.elemOf(st))
		}
	case "array_meta":
		n.K = "m"
		for _, c := range info.Children {
			n.H = append(n.H, Hdr{ID: p.w.cid(c.ID), Sz: int(c.Size), Cnt: int(c.Count), Sum: int(c.CountSum)})
			n.C = append(n.C, p.nodeOfID(c.ID))
		}
	case "map_data":
		n.K = "md"
		n.Cnt = int(info.MapCount)
		n.Seed = strconv.FormatUint(info.Seed, 16)
		n.Els = []*MapEls{p.mapEls(info.MapElems)}
	case "map_meta":
		n.K = "mm"
		n.Cnt = int(info.MapCount)
		n.Seed = strconv.FormatUint(info.Seed, 16)
		for _, c := range info.Children {
			n.H = append(n.H, Hdr{ID: p.w.cid(c.ID), Sz: int(c.Size), fkRaw: p.note(c.FirstKey)})
			n.C = append(n.C, p.nodeOfID(c.ID))
		}
	default:
		n.K = "other"
	}
	return n
}

func (p *projector) nodeOfID(id atree.SlabID) *Node {
	// a reference cycle among the slabs (a corrupted storage) must end up in the projection, not in a stack overflow of the harness
	if p.onPath == nil {
		p.onPath = map[atree.SlabID]bool{}
	}
	if p.onPath[id] {
		p.w.Dangling++
		return &Node{K: "cycle", ID: p.w.cid(id), E: []Elem{}, H: []Hdr{}, C: []*Node{}, Els: []*MapEls{}}
	}
	p.onPath[id] = true
	defer delete(p.onPath, id)
	s := p.w.peek(id)
	if s == nil {
		p.w.Dangling++
		return &Node{K: "missing", ID: p.w.cid(id), E: []Elem{}, H: []Hdr{}, C: []*Node{}, Els: []*MapEls{}}
	}
	return p.nodeOfSlab(s)
}

func (p *projector) mapEls(e *atree.VerifElements) *MapEls {
	r := &MapEls{T: "l", Lvl: int(e.Level), Sz: int(e.Size), Hk: []int{}, El: []MapElem{}}
	p.els = append(p.els, r)
	if e.HKey {
		r.T = "h"
		for _, d := range e.HKeys {
			r.hkRaw = append(r.hkRaw, p.note(d))
		}
	}
	for _, el := range e.Elems {
		me := MapElem{Sz: int(el.Size), K: []Elem{}, V: []Elem{}, Els: []*MapEls{}, X: []*Node{}}
		runStats.ElemClass["map:"+el.Kind+fmt.Sprintf("@L%d", e.Level)]++
		switch el.Kind {
		case "single":
			me.T = "s"
			me.K = []Elem{p.elemOf(el.Key)}
			me.V = []Elem{p.elemOf(el.Value)}
		case "inline_group":
			me.T = "g"
			me.Els = []*MapEls{p.mapEls(el.Group)}
		case "external_group":
			me.T = "x"
			me.X = []*Node{p.nodeOfID(el.GroupID)}
		}
		r.El = append(r.El, me)
	}
	return r
}

func (p *projector) elemOf(st atree.Storable) Elem {
	e := Elem{Sz: int(st.ByteSize()), Ch: []*Node{}}
	inner := st
	for {
		if ss, ok := inner.(testutils.SomeStorable); ok {
			e.W++
			inner = ss.Storable
			continue
		}
		break
	}
	switch x := inner.(type) {
	case testutils.StringValue:
		e.C = "s"
		e.V = idOfString(x.String())
		e.Vsz = int(x.ByteSize())
	case atree.SlabIDStorable:
		id := atree.SlabID(x)
		e.Ref = p.w.cid(id)
		s := p.w.peek(id)
		switch sl := s.(type) {
		case nil:
			e.C = "dangling"
			p.w.Dangling++
		case *atree.StorableSlab:
			p.slabs[e.Ref] = true
			e.C = "L"
			in := sl.ChildStorables()[0]
			lw := 0
			for {
				if ss, ok := in.(testutils.SomeStorable); ok {
					lw++
					in = ss.Storable
					continue
				}
				break
			}
			if sv, ok := in.(testutils.StringValue); ok {
				e.V = idOfString(sv.String())
				e.Vsz = int(sv.ByteSize())
			}
			e.W += lw
		default:
			n := p.nodeOfSlab(s)
			if n.K == "d" || n.K == "m" {
				e.C = "RA"
			} else {
				e.C = "RM"
			}
			e.V = n.ID
			e.Vsz = n.Sz
			e.Ch = []*Node{n}
		}
	case *atree.ArrayDataSlab:
		n := p.nodeOfSlab(x)
		e.C = "A"
		e.V = n.ID
		e.Vsz = n.Sz
		e.Ch = []*Node{n}
	case *atree.MapDataSlab:
		n := p.nodeOfSlab(x)
		e.C = "M"
		e.V = n.ID
		e.Vsz = n.Sz
		e.Ch = []*Node{n}
	case testutils.Uint64Value:
		e.C = "u"
		e.V = int(uint64(x) % (1 << 30))
		e.Vsz = int(x.ByteSize())
	default:
		e.C = "other"
	}
	return e
}

// ---------------------------------------------------------------- abstract content through the public API

type AbsElem struct {
	C   string    `json:"c"`
	W   int       `json:"w"`
	V   int       `json:"v"`
	Ti  string    `json:"ti"`  // containers: type info token
	Sub []AbsElem `json:"sub"` // array: elements; map: k0, v0, k1, v1, ... in iteration order
}

func (w *World) absOfValue(v atree.Value) AbsElem {
	a := AbsElem{Sub: []AbsElem{}}
	for {
		if sv, ok := v.(testutils.SomeValue); ok {
			a.W++
			v = sv.Value
			continue
		}
		break
	}
	switch x := v.(type) {
	case testutils.StringValue:
		a.C = "s"
		a.V = idOfString(x.String())
	case testutils.Uint64Value:
		a.C = "u"
		a.V = int(uint64(x) % (1 << 30))
	case *atree.Array:
		a.C = "A"
		a.V = w.cid(atree.SlabID(valueIDToSlabID(x.ValueID())))
		a.Ti = tiString(x.Type())
		a.Sub = w.absArray(x)
	case *atree.OrderedMap:
		a.C = "M"
		a.V = w.cid(atree.SlabID(valueIDToSlabID(x.ValueID())))
		a.Ti = tiString(x.Type())
		a.Sub = w.absMap(x)
	default:
		a.C = "other"
	}
	return a
}

func valueIDToSlabID(v atree.ValueID) atree.SlabID {
	id, err := atree.NewSlabIDFromRawBytes(v[:])
	must(err)
	return id
}

func (w *World) absArray(a *atree.Array) []AbsElem {
	out := []AbsElem{}
	err := a.IterateReadOnly(func(v atree.Value) (bool, error) {
		out = append(out, w.absOfValue(v))
		return true, nil
	})
	if err != nil {
		out = append(out, AbsElem{C: "error:" + classify(err).Class, Sub: []AbsElem{}})
	}
	return out
}

func (w *World) absMap(m *atree.OrderedMap) []AbsElem {
	out := []AbsElem{}
	err := m.IterateReadOnly(func(k, v atree.Value) (bool, error) {
		out = append(out, w.absOfValue(k), w.absOfValue(v))
		return true, nil
	})
	if err != nil {
		out = append(out, AbsElem{C: "error:" + classify(err).Class, Sub: []AbsElem{}})
	}
	return out
}

// ---------------------------------------------------------------- observation of the whole world

type RootObs struct {
	Name string    `json:"name"`
	Kind string    `json:"kind"`
	Rid  int       `json:"rid"` // canonical id of the root slab / value id
	N    int       `json:"n"`   // Count()
	Ti   string    `json:"ti"`
	Abs  []AbsElem `json:"abs"`
	Fsum string    `json:"fsum"` // hash of the whole projected forest of this root with RAW digests (for "unchanged" relations)
	Kds  [][]int   `json:"kds"`  // maps with a table digester: digest vector of every key, in iteration order
	F    []*Node   `json:"F"`    // exactly one node
	Lk   int       `json:"lk"`   // bulk-built / copied maps: entries of the source that a lookup in the result finds
}

type StoreObs struct {
	Calls  int    `json:"calls"`  // ledger write calls so far
	Regs   int    `json:"regs"`   // registers
	Deltas int    `json:"deltas"` // entries in the write set
	Stored []int  `json:"stored"` // canonical ids of all slabs in the view
	Reach  []int  `json:"reach"`  // canonical ids of standalone slabs reached from the roots
	Dsum   string `json:"dsum"`   // fingerprint of the identifiers in the write set
	Stale  []int  `json:"stale"`  // canonical ids of slabs held in the read cache and NOT in the write set whose encoding differs from their register
}

func (w *World) rootSlabOf(h *Handle) atree.Slab {
	if h.Kind == "A" {
		return atree.VerifArrayRoot(h.Arr)
	}
	return atree.VerifMapRoot(h.Map)
}

func (w *World) Observe() ([]RootObs, StoreObs) {
	// Observation must not change what it observes: reading the content through the public iterators loads every slab
	// into the read cache, which would hide everything that depends on a slab NOT being loaded (a removal of a slab
	// that was never read in this session, partially loaded containers).  Slabs that only the observation loaded are
	// evicted again afterwards; nothing refers to them (the iterators and the values they produced are gone).
	cache := atree.VerifCache(w.St)
	before := make(map[atree.SlabID]struct{}, len(cache))
	for id := range cache {
		before[id] = struct{}{}
	}
	defer func() {
		cache := atree.VerifCache(w.St)
		for id := range cache {
			if _, ok := before[id]; !ok {
				delete(cache, id)
			}
		}
	}()
	p := w.newProjector()
	roots := []RootObs{}
	for _, name := range w.Roots {
		h := w.H[name]
		ro := RootObs{Name: name, Kind: h.Kind, Kds: [][]int{}}
		root := w.rootSlabOf(h)
		n := p.nodeOfSlab(root)
		ro.F = []*Node{n}
		ro.Fsum = sumNode(n)
		ro.Rid = n.ID
		if h.Kind == "A" {
			ro.N = int(h.Arr.Count())
			ro.Ti = tiString(h.Arr.Type())
			ro.Abs = w.absArray(h.Arr)
		} else {
			ro.N = int(h.Map.Count())
			ro.Ti = tiString(h.Map.Type())
			ro.Abs = w.absMap(h.Map)
			for i := 0; i+1 < len(ro.Abs); i += 2 {
				if h.Dig != nil {
					v := h.Dig.Vec(ro.Abs[i].V)
					ro.Kds = append(ro.Kds, []int{int(v[0]), int(v[1]), int(v[2]), int(v[3])})
				} else {
					ro.Kds = append(ro.Kds, []int{0, 0, 0, 0}) // built-in digester: digests unknown to the harness
				}
			}
		}
		roots = append(roots, ro)
	}
	p.finalize()
	so := StoreObs{Calls: len(w.Ledger.Calls), Regs: len(w.Ledger.Regs), Deltas: int(w.St.Deltas()), Stored: []int{}, Reach: []int{}}
	for _, id := range w.ViewIDs() {
		so.Stored = append(so.Stored, w.cid(id))
	}
	sort.Ints(so.Stored)
	for id := range p.slabs {
		so.Reach = append(so.Reach, id)
	}
	sort.Ints(so.Reach)
	so.Stale = w.staleCacheEntries()
	dk := []string{}
	for id, s := range atree.VerifDeltas(w.St) {
		if s == nil {
			dk = append(dk, id.String()+"-")
		} else {
			dk = append(dk, id.String()+"+")
		}
	}
	sort.Strings(dk)
	so.Dsum = shortSum([]byte(strings.Join(dk, ",")))
	return roots, so
}

// staleCacheEntries: a slab object served from the read cache (not pending in the write set) must be what the
// ledger holds under its identifier - an in-place change of a cached slab that was never stored would be
// invisible to the next commit and to every other storage over the same ledger.
func (w *World) staleCacheEntries() []int {
	out := []int{}
	deltas := atree.VerifDeltas(w.St)
	for id, s := range atree.VerifCache(w.St) {
		if _, dirty := deltas[id]; dirty {
			continue
		}
		reg, has := w.Ledger.Regs[id]
		if s == nil {
			if has {
				out = append(out, w.cid(id))
			}
			continue
		}
		b, err := atree.EncodeSlab(s, encMode())
		if err != nil || !has || !bytes.Equal(b, reg) {
			out = append(out, w.cid(id))
		}
	}
	sort.Ints(out)
	return out
}

// Reopen abandons the storage object and reopens every root by its root identifier over the ledger.
func (w *World) Reopen() Res {
	w.St = newStorage(w.Ledger)
	res := Res{Class: "ok", Seq: []int{}}
	if w.savedRoots == nil {
		w.rememberRoots() // never committed: the caller only knows the identifiers it holds now
	}
	w.H = map[string]*Handle{}
	w.Roots = nil
	for _, sr := range w.savedRoots {
		h := &Handle{Name: sr.Name, Kind: sr.Kind, Dig: sr.Dig}
		if sr.Kind == "A" {
			a, err := atree.NewArrayWithRootID(w.St, sr.ID)
			if err != nil {
				return resOf(err)
			}
			h.Arr = a
		} else {
			var db atree.DigesterBuilder = atree.NewDefaultDigesterBuilder()
			if sr.Dig != nil {
				db = sr.Dig
			}
			m, err := atree.NewMapWithRootID(w.St, sr.ID, db)
			if err != nil {
				return resOf(err)
			}
			h.Map = m
		}
		w.H[sr.Name] = h
		w.Roots = append(w.Roots, sr.Name)
	}
	return res
}

// ColdObserve reconstructs every root in a brand-new storage over a copy of the ledger,
// using nothing but the registers, without touching the live storage.
func (w *World) ColdObserve() []RootObs {
	w.ColdReach, w.ColdBad = []int{}, 1 // until the observation completes: a root that cannot even be opened counts as unresolved
	cw := &World{T: w.T, Th: w.Th, Ledger: w.Ledger.Clone(), H: map[string]*Handle{}, canon: w.canon, Addr: w.Addr, RawIDs: w.RawIDs}
	cw.St = newStorage(cw.Ledger)
	for _, name := range w.Roots {
		h := w.H[name]
		nh := &Handle{Name: name, Kind: h.Kind, Dig: h.Dig}
		if h.Kind == "A" {
			a, err := atree.NewArrayWithRootID(cw.St, h.Arr.SlabID())
			if err != nil {
				return []RootObs{{Name: name, Kind: "error:" + classify(err).Class, Abs: []AbsElem{}, Kds: [][]int{}, F: []*Node{}}}
			}
			nh.Arr = a
		} else {
			var db atree.DigesterBuilder = atree.NewDefaultDigesterBuilder()
			if h.Dig != nil {
				db = h.Dig
			}
			m, err := atree.NewMapWithRootID(cw.St, h.Map.SlabID(), db)
			if err != nil {
				return []RootObs{{Name: name, Kind: "error:" + classify(err).Class, Abs: []AbsElem{}, Kds: [][]int{}, F: []*Node{}}}
			}
			nh.Map = m
		}
		cw.H[name] = nh
		cw.Roots = append(cw.Roots, name)
	}
	roots, so := cw.Observe()
	w.ColdReach, w.ColdBad = so.Reach, cw.Dangling+cw.Undecodable
	return roots
}

func (w *World) RegObs() []RegObs {
	out := []RegObs{}
	for _, id := range w.Ledger.SortedIDs() {
		b := w.Ledger.Regs[id]
		r := RegObs{Key: id.String(), ID: w.cid(id), Sum: shortSum(b), Len: len(b)}
		r.Root, _ = atree.IsRootOfAnObject(b)
		r.Ptr, _ = atree.HasPointers(b)
		r.Lim, _ = atree.HasSizeLimit(b)
		if len(b) >= 2 {
			// layout: 2-byte head, [extra data: one CBOR item, root only], [inlined extra data: one CBOR item, if flagged], body
			r.HasNext = b[0]&0x02 != 0
			hasInl := b[0]&0x01 != 0
			typ := b[1] & 0x1f
			r.IsData = typ == 0x00 || typ == 0x08 || typ == 0x0b
			rest := b[2:]
			skip := func(data []byte) int {
				dec := cbor.NewStreamDecoder(bytes.NewBuffer(data))
				raw, err := dec.DecodeRawBytes()
				if err != nil {
					return 0
				}
				return len(raw)
			}
			body := len(b)
			if r.Root {
				n := skip(rest)
				body -= n
				rest = rest[n:]
			}
			if hasInl {
				n := skip(rest)
				body -= n
				r.Compact = bytes.Contains(rest[:n], []byte{0xd8, 0xf9})
			}
			r.Body = body
		}
		if s, err := atree.DecodeSlab(id, b, decMode(), testutils.DecodeStorable, decodeTypeInfo); err == nil {
			r.Dsz = int(s.ByteSize())
			if re, err := atree.EncodeSlab(s, encMode()); err == nil {
				r.Reenc = bytes.Equal(re, b)
			}
		}
		if s, ok := atree.VerifCache(w.St)[id]; ok && s != nil {
			r.Msz = int(s.ByteSize())
		} else if s, ok := atree.VerifDeltas(w.St)[id]; ok && s != nil {
			r.Msz = int(s.ByteSize())
		}
		out = append(out, r)
	}
	return out
}

// sumNode hashes a projected tree including raw (uncompressed) digests.
func sumNode(n *Node) string {
	h := sha256.New()
	var walkEls func(e *MapEls)
	var walk func(n *Node)
	walkElem := func(e Elem) {
		fmt.Fprintf(h, "e|%s|%d|%d|%d|%d|%d;", e.C, e.W, e.Sz, e.V, e.Vsz, e.Ref)
		for _, c := range e.Ch {
			walk(c)
		}
	}
	walkEls = func(e *MapEls) {
		fmt.Fprintf(h, "E|%s|%d|%d|%v;", e.T, e.Lvl, e.Sz, e.hkRaw)
		for _, x := range e.El {
			fmt.Fprintf(h, "x|%s|%d;", x.T, x.Sz)
			for _, k := range x.K {
				walkElem(k)
			}
			for _, v := range x.V {
				walkElem(v)
			}
			for _, g := range x.Els {
				walkEls(g)
			}
			for _, g := range x.X {
				walk(g)
			}
		}
	}
	walk = func(n *Node) {
		fmt.Fprintf(h, "n|%s|%d|%d|%d|%d|%t|%t|%d|%t|%t|%s|%s;", n.K, n.ID, n.Sz, n.Cnt, n.Nxt, n.Inl, n.Root, n.fkRaw, n.Any, n.Cg, n.Seed, n.Ti)
		for _, e := range n.E {
			walkElem(e)
		}
		for _, hd := range n.H {
			fmt.Fprintf(h, "h|%d|%d|%d|%d|%d;", hd.ID, hd.Sz, hd.Cnt, hd.Sum, hd.fkRaw)
		}
		for _, e := range n.Els {
			walkEls(e)
		}
		for _, c := range n.C {
			walk(c)
		}
	}
	walk(n)
	return hex.EncodeToString(h.Sum(nil)[:10])
}
