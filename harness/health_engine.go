package main

import (
	"encoding/json"
	"flag"
	"fmt"
	"sort"

	"github.com/onflow/atree"
	testutils "github.com/onflow/atree/test_utils"
)

// Health engine (C20): builds the reference graph of each TLC-generated case in a real storage
// (one root array per model slab; references are elements whose storable is a SlabIDStorable),
// loads everything and asks CheckStorageHealth / GetAllChildReferences.

type refValue struct{ id atree.SlabID }

var _ atree.Value = refValue{}

func (r refValue) Storable(atree.SlabStorage, atree.Address, uint32) (atree.Storable, error) {
	return atree.SlabIDStorable(r.id), nil
}

type healthCase struct {
	N        int     `json:"n"`
	Ex       []bool  `json:"ex"`
	Own      []int   `json:"own"`
	Refs     [][]int `json:"refs"`
	Expected int     `json:"expected"`
	Kind     string  `json:"kind"`
	How      string  `json:"how"`
	Healthy  bool    `json:"healthy"`
}

type healthRes struct {
	OK    bool   `json:"ok"`
	Class string `json:"class"`
	Roots []int  `json:"roots"`
	Msg   string `json:"msg"`
}

type gacrObs struct {
	ID     int   `json:"id"`
	OK     bool  `json:"ok"`
	Refs   []int `json:"refs"`
	Broken []int `json:"broken"`
}

type healthRec struct {
	T        int       `json:"t"`
	Ev       string    `json:"ev"`
	N        int       `json:"n"`
	Ex       []bool    `json:"ex"`
	Own      []int     `json:"own"`
	Refs     [][]int   `json:"refs"`
	Expected int       `json:"expected"`
	Kind     string    `json:"kind"`
	How      string    `json:"how"`
	Res      healthRes `json:"res"`
	Gacr     []gacrObs `json:"gacr"`
	Loaded   int       `json:"loaded"`
	H        int       `json:"h"` // index of the history (walk engines)
}

func runHealthCase(t int, c healthCase) healthRec {
	ledger := NewLedgerSim()
	st := newStorage(ledger)
	ids := make([]atree.SlabID, c.N)
	arrs := make([]*atree.Array, c.N)
	for i := 0; i < c.N; i++ {
		var addr atree.Address
		addr[7] = byte(c.Own[i])
		a, err := atree.NewArray(st, addr, testutils.NewSimpleTypeInfo(uint64(50+i)))
		must(err)
		arrs[i] = a
		ids[i] = a.SlabID()
	}
	for i := 0; i < c.N; i++ {
		must(arrs[i].Append(testutils.Uint64Value(uint64(i))))
		for _, tgt := range c.Refs[i] {
			must(arrs[i].Append(refValue{ids[tgt-1]}))
		}
	}
	must(st.FastCommit(2))
	modelID := func(id atree.SlabID) int {
		for i, x := range ids {
			if x == id {
				return i + 1
			}
		}
		return 0
	}
	// deletions
	for i := 0; i < c.N; i++ {
		if c.Ex[i] {
			continue
		}
		switch c.How {
		case "pending":
			must(st.Remove(ids[i]))
		case "committed":
			must(st.Remove(ids[i]))
			must(st.FastCommit(1))
		default: // "ledger": the register disappears from the ledger; a new storage loads everything that is left
			delete(ledger.Regs, ids[i])
		}
	}
	if c.How == "ledger" {
		st = newStorage(ledger)
		must(st.BatchPreload(ledger.SortedIDs(), 2))
	}
	rec := healthRec{T: t, Ev: "Health", N: c.N, Ex: c.Ex, Own: c.Own, Refs: c.Refs, Expected: c.Expected, Kind: c.Kind, How: c.How,
		Gacr: []gacrObs{}, Loaded: len(atree.VerifCache(st))}
	for i := range rec.Refs {
		if rec.Refs[i] == nil {
			rec.Refs[i] = []int{}
		}
	}
	roots, err := atree.CheckStorageHealth(st, c.Expected)
	rec.Res = healthRes{OK: err == nil, Class: classify(err).Class, Roots: []int{}}
	if err != nil {
		rec.Res.Msg = err.Error()
	}
	for id := range roots {
		rec.Res.Roots = append(rec.Res.Roots, modelID(id))
	}
	sort.Ints(rec.Res.Roots)
	// GetAllChildReferences follows references without a visited set: on a (corrupt) cyclic graph it does not
	// terminate.  Cycles cannot arise from valid histories plus the single corruptions of C20 except through a
	// second reference from a descendant; those slabs are skipped (stated as a limit in DESIGN.md).
	var cyclic func(i int, path map[int]bool) bool
	cyclic = func(i int, path map[int]bool) bool {
		if path[i] {
			return true
		}
		path[i] = true
		defer delete(path, i)
		for _, t := range c.Refs[i] {
			if c.Ex[t-1] && cyclic(t-1, path) {
				return true
			}
		}
		return false
	}
	for i := 0; i < c.N; i++ {
		if !c.Ex[i] || cyclic(i, map[int]bool{}) {
			continue
		}
		refs, broken, err := st.GetAllChildReferences(ids[i])
		g := gacrObs{ID: i + 1, OK: err == nil, Refs: []int{}, Broken: []int{}}
		for _, r := range refs {
			g.Refs = append(g.Refs, modelID(r))
		}
		for _, b := range broken {
			g.Broken = append(g.Broken, modelID(b))
		}
		sort.Ints(g.Refs)
		sort.Ints(g.Broken)
		rec.Gacr = append(rec.Gacr, g)
	}
	return rec
}

func cmdHealthRun(args []string) {
	fs := flag.NewFlagSet("health-run", flag.ExitOnError)
	in := fs.String("in", "", "cases ndjson (first line cfg)")
	out := fs.String("out", "", "trace ndjson")
	fs.String("mode", "", "ignored")
	fs.Parse(args)
	first := true
	wr := newNDWriter(*out)
	t := 0
	readLines(*in, func(line []byte) {
		if first {
			first = false
			return
		}
		var c healthCase
		must(json.Unmarshal(line, &c))
		t++
		wr.Write(runHealthCase(t, c))
	})
	wr.Close()
	fmt.Printf("{\"histories\":%d,\"records\":%d}\n", t, wr.n)
}

// ---------------------------------------------------------------- corruptions of storages produced by valid histories

func refsOf(s atree.Slab) []atree.SlabID {
	var out []atree.SlabID
	stack := s.ChildStorables()
	for len(stack) > 0 {
		x := stack[len(stack)-1]
		stack = stack[:len(stack)-1]
		if id, ok := x.(atree.SlabIDStorable); ok {
			out = append(out, atree.SlabID(id))
			continue
		}
		stack = append(stack, x.ChildStorables()...)
	}
	return out
}

// graphOfLedger reads the reference graph of a committed ledger (model ids = position in ascending id order).
func graphOfLedger(l *LedgerSim) ([]atree.SlabID, healthCase) {
	ids := l.SortedIDs()
	pos := map[atree.SlabID]int{}
	for i, id := range ids {
		pos[id] = i + 1
	}
	c := healthCase{N: len(ids), Ex: make([]bool, len(ids)), Own: make([]int, len(ids)), Refs: make([][]int, len(ids))}
	for i, id := range ids {
		c.Ex[i] = true
		c.Own[i] = int(id.AddressAsUint64())
		s, err := atree.DecodeSlab(id, l.Regs[id], decMode(), testutils.DecodeStorable, decodeTypeInfo)
		must(err)
		c.Refs[i] = []int{}
		for _, r := range refsOf(s) {
			c.Refs[i] = append(c.Refs[i], pos[r]) // 0 would be a dangling reference in a valid storage: reported by the spec
		}
	}
	return ids, c
}

func checkLoaded(t int, l *LedgerSim, ids []atree.SlabID, c healthCase) healthRec {
	st := newStorage(l)
	must(st.BatchPreload(l.SortedIDs(), 3))
	rec := healthRec{T: t, Ev: "Health", N: c.N, Ex: c.Ex, Own: c.Own, Refs: c.Refs, Expected: c.Expected, Kind: c.Kind, How: c.How,
		Gacr: []gacrObs{}, Loaded: len(atree.VerifCache(st))}
	pos := map[atree.SlabID]int{}
	for i, id := range ids {
		pos[id] = i + 1
	}
	roots, err := atree.CheckStorageHealth(st, c.Expected)
	rec.Res = healthRes{OK: err == nil, Class: classify(err).Class, Roots: []int{}}
	if err != nil {
		rec.Res.Msg = err.Error()
	}
	for id := range roots {
		rec.Res.Roots = append(rec.Res.Roots, pos[id])
	}
	sort.Ints(rec.Res.Roots)
	return rec
}

func cmdHealthWalks(args []string) {
	fs := flag.NewFlagSet("health-walks", flag.ExitOnError)
	in := fs.String("in", "", "nested histories ndjson (first line cfg)")
	out := fs.String("out", "", "trace ndjson")
	maxDel := fs.Int("maxdel", 6, "max deletions tried per storage")
	fs.String("mode", "", "ignored")
	fs.Parse(args)
	var cfg runCfg
	first := true
	wr := newNDWriter(*out)
	t, nh := 0, 0
	readLines(*in, func(line []byte) {
		if first {
			first = false
			var hdr struct {
				Cfg runCfg `json:"cfg"`
			}
			must(json.Unmarshal(line, &hdr))
			cfg = hdr.Cfg
			return
		}
		var raw []json.RawMessage
		must(json.Unmarshal(line, &raw))
		nh++
		w := NewWorld(uint32(cfg.T))
		for _, r := range raw {
			op := parseNestedOp(r)
			if op.Op == "crash" || op.Op == "dropcache" {
				continue
			}
			_, res := w.ExecAny(&op)
			w.lastCalls = nil
			if res.Class != "ok" {
				break
			}
		}
		w.Exec(Op{Op: "commit", Mode: "det", W: 2})
		ids, base := graphOfLedger(w.Ledger)
		nroots := len(w.Roots)
		emit := func(l *LedgerSim, ids []atree.SlabID, c healthCase) {
			t++
			r := checkLoaded(t, l, ids, c)
			r.H = nh
			wr.Write(r)
		}
		// intact
		c0 := base
		c0.Expected, c0.Kind = nroots, "none"
		emit(w.Ledger, ids, c0)
		// delete each referenced slab (bounded)
		referenced := map[int]bool{}
		for _, rs := range base.Refs {
			for _, r := range rs {
				referenced[r] = true
			}
		}
		nd := 0
		for i := range ids {
			if !referenced[i+1] || nd >= *maxDel {
				continue
			}
			nd++
			l2 := w.Ledger.Clone()
			delete(l2.Regs, ids[i])
			c := base
			c.Ex = append([]bool(nil), base.Ex...)
			c.Ex[i] = false
			c.Expected, c.Kind, c.How = nroots, "delete", "ledger"
			// model ids stay those of the full graph; the deleted slab simply does not exist
			emit(l2, ids, c)
		}
		// an extra unreferenced slab
		{
			l2 := w.Ledger.Clone()
			st := newStorage(l2)
			a, err := atree.NewArray(st, w.Addr, testutils.NewSimpleTypeInfo(99))
			must(err)
			must(a.Append(testutils.Uint64Value(1)))
			must(st.FastCommit(1))
			ids2, c := graphOfLedger(l2)
			c.Expected, c.Kind = nroots, "extra"
			emit(l2, ids2, c)
		}
		// a second reference to a referenced slab, held by a new root
		for i := range ids {
			if !referenced[i+1] {
				continue
			}
			l2 := w.Ledger.Clone()
			st := newStorage(l2)
			a, err := atree.NewArray(st, w.Addr, testutils.NewSimpleTypeInfo(98))
			must(err)
			must(a.Append(refValue{ids[i]}))
			must(st.FastCommit(1))
			ids2, c := graphOfLedger(l2)
			c.Expected, c.Kind = nroots+1, "double"
			emit(l2, ids2, c)
			break
		}
	})
	wr.Close()
	fmt.Printf("{\"histories\":%d,\"records\":%d}\n", nh, wr.n)
}
