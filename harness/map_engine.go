package main

import (
	"encoding/json"
	"flag"
	"fmt"
	"math/rand"
	"strings"

	"github.com/onflow/atree"
	testutils "github.com/onflow/atree/test_utils"
)

// Map engine: one root map "m" per history with a table-driven digester.  A history may
// start with a tuple ["dig", [d0,d1,d2,d3] for key 1, for key 2, ...] chosen by TLC.

func splitmix(x uint64) uint64 {
	x += 0x9e3779b97f4a7c15
	x = (x ^ (x >> 30)) * 0xbf58476d1ce4e5b9
	x = (x ^ (x >> 27)) * 0x94d049bb133111eb
	return x ^ (x >> 31)
}

// hashLikeDigests: pseudo-random 30-bit digests per level (fits TLC integers, hash-like spread).
func hashLikeDigests(id int) [4]uint64 {
	var d [4]uint64
	for l := 0; l < 4; l++ {
		d[l] = splitmix(uint64(id)*4+uint64(l)) % (1 << 30)
	}
	return d
}

func newMapWorld(T int, limit int, table map[int][4]uint64) *World {
	w := NewWorld(uint32(T))
	w.DigTable = table
	w.DigDefault = hashLikeDigests
	if limit >= 0 {
		atree.VerifSetMaxCollisionLimitPerDigest(uint32(limit))
	}
	atree.VerifSetLevel0DigestMask(builtinMask)
	if builtinMask != 0 {
		// production digester (CircleHash + BLAKE3, pooled) with its first-level digest masked: real first-level collisions
		m, err := atree.NewMap(w.St, w.Addr, atree.NewDefaultDigesterBuilder(), testutils.NewSimpleTypeInfo(42))
		must(err)
		w.H["m"] = &Handle{Name: "m", Kind: "M", Map: m}
		w.Roots = append(w.Roots, "m")
		return w
	}
	w.Exec(Op{Op: "new_map", New: "m", Ti: 42})
	return w
}

// builtinMask != 0: root maps use the built-in digester with this mask on the first-level digest (flag -builtinmask).
var builtinMask uint64

func parseDigTuple(raw json.RawMessage) (map[int][4]uint64, bool) {
	var t []json.RawMessage
	if json.Unmarshal(raw, &t) != nil || len(t) == 0 {
		return nil, false
	}
	var name string
	if json.Unmarshal(t[0], &name) != nil || name != "dig" {
		return nil, false
	}
	table := map[int][4]uint64{}
	for k, r := range t[1:] {
		var v []uint64
		must(json.Unmarshal(r, &v))
		var d [4]uint64
		copy(d[:], v)
		table[k+1] = d
	}
	return table, true
}

func cmdMapRun(args []string) {
	fs := flag.NewFlagSet("map-run", flag.ExitOnError)
	in := fs.String("in", "", "histories ndjson (first line cfg)")
	out := fs.String("out", "", "trace ndjson")
	mode := fs.String("mode", "edge", "edge|full|tail|scan")
	fs.Uint64Var(&builtinMask, "builtinmask", 0, "use the built-in digester with this mask on the first-level digest")
	tail := fs.Int("tail", 40, "tail mode: number of final operations recorded")
	probe := fs.String("probe", "", "comma list of probes run at the end of every history: iter,partial,batch,copy,mutiter")
	pseed := fs.Int64("seed", 1, "seed for probe choices")
	fs.Parse(args)
	which := map[string]bool{}
	for _, p := range strings.Split(*probe, ",") {
		if p != "" {
			which[p] = true
		}
	}
	var cfg runCfg
	first := true
	wr := newNDWriter(*out)
	t, nops := 0, 0
	readLines(*in, func(line []byte) {
		if first {
			first = false
			var hdr struct {
				Cfg runCfg `json:"cfg"`
			}
			hdr.Cfg.Limit = 255
			must(json.Unmarshal(line, &hdr))
			cfg = hdr.Cfg
			ledgerIndexBase = cfg.Index0
			return
		}
		var raw []json.RawMessage
		must(json.Unmarshal(line, &raw))
		t++
		var table map[int][4]uint64
		if len(raw) > 0 {
			if tb, ok := parseDigTuple(raw[0]); ok {
				table = tb
				raw = raw[1:]
			}
		}
		w := newMapWorld(cfg.T, cfg.Limit, table)
		ops := make([]Op, len(raw))
		for i, r := range raw {
			ops[i] = parseTupleOp(r, "m")
		}
		nops += len(ops)
		from := 0
		if *mode == "edge" {
			from = len(ops) - 1
		}
		if *mode == "tail" && len(ops) > *tail {
			from = len(ops) - *tail
		}
		if *mode == "scan" {
			// boundary scan: after every operation report whether an index slab is full (one more child header would exceed
			// the maximum); the orchestrator replays TLC's one-step closure from exactly those states
			for k, op := range ops {
				w.ExecSilent(op)
				fl, rc := w.boundaryFlags("m")
				wr.Write(map[string]any{"t": t, "n": k + 1, "flags": fl, "rc": rc, "ic": append([]int{}, lastInnerCounts...)})
			}
			return
		}
		for _, op := range ops[:from] {
			w.ExecSilent(op)
		}
		lr := w.rec(t, "Load", Op{}, Res{Class: "ok"})
		lr.I = cfg.Limit
		wr.Write(lr)
		for _, op := range ops[from:] {
			op := op
			ev, res := w.ExecAny(&op)
			wr.Write(w.rec(t, ev, op, res))
			if res.Class == "panic" {
				break
			}
		}
		if len(which) > 0 {
			w.RunProbes(t, "m", which, rand.New(rand.NewSource(*pseed*1000003+int64(t))), func(r Rec) { wr.Write(r) })
		}
	})
	wr.Close()
	sj, _ := json.Marshal(runStats)
	fmt.Printf("{\"histories\":%d,\"ops\":%d,\"records\":%d,\"stats\":%s}\n", t, nops, wr.n, sj)
}
