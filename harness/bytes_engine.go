package main

import (
	"bytes"
	"flag"
	"fmt"
	"strconv"
	"strings"

	"github.com/onflow/atree"
	testutils "github.com/onflow/atree/test_utils"
)

// bytes-run (C17): ByteSliceToByteArray / ByteArrayToByteSlice for lengths around the single-slab fast path
// boundary, several size estimates (including under-estimates) and both 3- and 4-byte element encodings.

type bytesRec struct {
	T         int       `json:"T"`
	Ev        string    `json:"ev"`
	Tt        int       `json:"t"`
	Len       int       `json:"len"`
	Est       int       `json:"est"`
	Val       int       `json:"val"`
	Class     string    `json:"class"`
	RoundTrip bool      `json:"roundtrip"`
	Back      string    `json:"back"`
	Roots     []RootObs `json:"roots"`
	St        StoreObs  `json:"st"`
	Cfg       RecCfg    `json:"cfg"`
}

func cmdBytesRun(args []string) {
	fs := flag.NewFlagSet("bytes-run", flag.ExitOnError)
	out := fs.String("out", "", "trace ndjson")
	tier := fs.String("tier", "quick", "quick|thorough")
	only := fs.String("only", "", "len,est,T: run a single case")
	fs.Int64("seed", 1, "unused")
	fs.Parse(args)
	wr := newNDWriter(*out)
	type cs struct{ l, est, T int }
	var cases []cs
	if *only != "" {
		p := strings.Split(*only, ",")
		l, _ := strconv.Atoi(p[0])
		e, _ := strconv.Atoi(p[1])
		T, _ := strconv.Atoi(p[2])
		cases = []cs{{l, e, T}}
	} else {
		Ts := []int{256}
		if *tier == "thorough" {
			Ts = []int{256, 512, 1024}
		}
		for _, T := range Ts {
			var lens []int
			for l := 0; l <= T/2+20; l++ {
				if *tier == "thorough" || l < 8 || l%3 == 0 || (l > T/4-12 && l < T/4+12) || (l > T/3-12 && l < T/3+12) || (l > T/2-12) {
					lens = append(lens, l)
				}
			}
			lens = append(lens, T, 2*T, 5*T+1)
			for _, l := range lens {
				for _, est := range []int{0, 1, 2, 3, 4} {
					cases = append(cases, cs{l, est, T})
				}
			}
		}
	}
	t := 0
	for _, c := range cases {
		for _, val := range []int{5, 200} { // 3-byte and 4-byte encodings
			t++
			w := NewWorld(uint32(c.T))
			data := bytes.Repeat([]byte{byte(val)}, c.l)
			if c.l > 2 {
				data[1] = byte(255 - val) // heterogeneous sizes
			}
			a, err := atree.ByteSliceToByteArray[testutils.Uint8Value](w.St, w.Addr, testutils.NewSimpleTypeInfo(42), data, uint32(c.est))
			rec := bytesRec{T: c.T, Ev: "Bytes", Tt: t, Len: c.l, Est: c.est, Val: val, Class: classify(err).Class, Roots: []RootObs{}, Cfg: w.cfg()}
			if err == nil {
				w.H["a"] = &Handle{Name: "a", Kind: "A", Arr: a}
				w.Roots = []string{"a"}
				rec.Roots, rec.St = w.Observe()
				back, berr := atree.ByteArrayToByteSlice[testutils.Uint8Value](a)
				rec.Back = classify(berr).Class
				rec.RoundTrip = berr == nil && bytes.Equal(back, data)
			}
			wr.Write(rec)
		}
	}
	wr.Close()
	fmt.Printf("{\"cases\":%d,\"records\":%d}\n", t, wr.n)
}
