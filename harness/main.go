package main

import (
	"fmt"
	"os"
)

var commands = map[string]func([]string){}

func init() {
	commands["storage-run"] = cmdStorageRun
	commands["storage-random"] = cmdStorageRandom
	commands["array-run"] = cmdArrayRun
	commands["map-run"] = cmdMapRun
	commands["multirun"] = cmdMultiRun
	commands["nested-run"] = cmdNestedRun
	commands["health-run"] = cmdHealthRun
	commands["bytes-run"] = cmdBytesRun
	commands["exterr-run"] = cmdExtErrRun
	commands["conc-run"] = cmdConcRun
	commands["preload-run"] = cmdPreloadRun
	commands["pools-run"] = cmdPoolsRun
	commands["health-walks"] = cmdHealthWalks
}

func main() {
	if len(os.Args) < 2 {
		fmt.Fprintln(os.Stderr, "usage: atreeh <command> [flags]")
		os.Exit(2)
	}
	cmd, ok := commands[os.Args[1]]
	if !ok {
		fmt.Fprintln(os.Stderr, "unknown command", os.Args[1])
		os.Exit(2)
	}
	cmd(os.Args[2:])
}
