package main

import (
	"encoding/json"
	"flag"
	"fmt"
	"math/rand"
	"sync"
	"time"

	"github.com/onflow/atree"
	testutils "github.com/onflow/atree/test_utils"
)

// preload-run (C16): executes the schedules emitted by PreloadConc.tla against the real
// PersistentSlabStorage.BatchPreload (parallel path: the identifier list is padded with identifiers that have
// no register, which are read and skipped).  The blocking verif hook forces the order in which decoded slabs
// reach the collecting goroutine.  Every run is compared with the same call made with one worker.

type preloadCase struct {
	W        int   `json:"w"`
	N        int   `json:"n"`
	ReadFail int   `json:"readfail"`
	DecErr   int   `json:"decerr"`
	Order    []int `json:"order"`
	Pre      int   `json:"pre"` // slabs already in the read cache before the call (none of the jobs)
}

type preloadOutcome struct {
	Returned bool   `json:"returned"`
	Class    string `json:"class"`
	Cat      string `json:"cat"`
	Cache    []int  `json:"cache"`   // job numbers (1-based) of the slabs in the read cache after the call
	CacheOK  bool   `json:"cacheok"` // every cached slab re-encodes to its register
	Extra    int    `json:"extra"`   // cache entries that are none of the jobs
	Gated    int    `json:"gated"`
	PreKept  int    `json:"prekept"` // previously cached slabs still in the read cache after the call
}

type preloadRec struct {
	T    int            `json:"t"`
	Ev   string         `json:"ev"`
	Case preloadCase    `json:"case"`
	Run  preloadOutcome `json:"run"`
	Twin preloadOutcome `json:"twin"`
	Rep  int            `json:"rep"`
}

const preloadPad = 11

func runPreload(c preloadCase, workers int, gate bool, jitter *rand.Rand) preloadOutcome {
	ledger := NewLedgerSim()
	addr := atree.Address{0, 0, 0, 0, 0, 0, 0, 1}
	st := newStorage(ledger)
	ids := []atree.SlabID{}
	for i := 0; i < c.N; i++ {
		a, err := atree.NewArray(st, addr, testutils.NewSimpleTypeInfo(uint64(60+i)))
		must(err)
		for k := 0; k <= i; k++ {
			must(a.Append(testutils.Uint64Value(uint64(100*i + k))))
		}
		ids = append(ids, a.SlabID())
	}
	preIDs := []atree.SlabID{}
	for i := 0; i < c.Pre; i++ {
		a, err := atree.NewArray(st, addr, testutils.NewSimpleTypeInfo(uint64(90+i)))
		must(err)
		must(a.Append(testutils.Uint64Value(uint64(7000 + i))))
		preIDs = append(preIDs, a.SlabID())
	}
	must(st.FastCommit(1))
	pos := map[atree.SlabID]int{}
	for i, id := range ids {
		pos[id] = i + 1
	}
	// identifiers that have no register: read and skipped
	for i := 0; i < preloadPad; i++ {
		ids = append(ids, atree.NewSlabID(addr, atree.SlabIndex{0, 0, 0, 0, 0, 0, 9, byte(i + 1)}))
	}
	if c.DecErr > 0 && c.DecErr <= c.N {
		id := ids[c.DecErr-1]
		b := ledger.Regs[id]
		ledger.Regs[id] = append([]byte(nil), b[:len(b)-1]...) // truncated register: decoding fails
	}
	cold := newStorage(ledger)
	for _, id := range preIDs {
		_, _, err := cold.Retrieve(id) // served from the ledger, kept in the read cache
		must(err)
	}
	isPre := map[atree.SlabID]bool{}
	for _, id := range preIDs {
		isPre[id] = true
	}
	var mu sync.Mutex
	cond := sync.NewCond(&mu)
	next, released := 0, 0
	deadline := time.Now().Add(3 * time.Second)
	if gate || jitter != nil {
		atree.VerifSetEventFunc(func(kind string, obj any) {
			if kind != "preload.decoded" {
				return
			}
			id, ok := obj.(atree.SlabID)
			if !ok {
				return
			}
			if jitter != nil {
				mu.Lock()
				d := time.Duration(jitter.Intn(300)) * time.Microsecond
				mu.Unlock()
				time.Sleep(d)
				return
			}
			job := pos[id]
			mu.Lock()
			for next < len(c.Order) && c.Order[next] != job && time.Now().Before(deadline) {
				waitWithTimeout(cond, 20*time.Millisecond)
			}
			if next < len(c.Order) && c.Order[next] == job {
				next++
				released++
			}
			cond.Broadcast()
			mu.Unlock()
			time.Sleep(200 * time.Microsecond)
		})
		defer atree.VerifSetEventFunc(nil)
	}
	if c.ReadFail > 0 {
		ledger.SetReadFaultPlan(c.ReadFail)
	}
	doneCh := make(chan error, 1)
	go func() {
		defer func() {
			if e := recover(); e != nil {
				doneCh <- fmt.Errorf("panic in BatchPreload: %v", e)
			}
		}()
		doneCh <- cold.BatchPreload(ids, workers)
	}()
	out := preloadOutcome{Cache: []int{}}
	var err error
	select {
	case err = <-doneCh:
		out.Returned = true
	case <-time.After(8 * time.Second):
		out.Class = "no-return"
		return out
	}
	ledger.SetReadFaultPlan()
	ei := classify(err)
	out.Class, out.Cat = ei.Class, ei.Cat
	out.Gated = released
	out.CacheOK = true
	for id, s := range atree.VerifCache(cold) {
		if isPre[id] && s != nil {
			out.PreKept++
			continue
		}
		j, isJob := pos[id]
		if !isJob || s == nil {
			out.Extra++
			continue
		}
		out.Cache = append(out.Cache, j)
		b, err := atree.EncodeSlab(s, encMode())
		if err != nil || string(b) != string(ledger.Regs[id]) {
			out.CacheOK = false
		}
	}
	sortInts(out.Cache)
	return out
}

func sortInts(a []int) {
	for i := 1; i < len(a); i++ {
		for j := i; j > 0 && a[j-1] > a[j]; j-- {
			a[j-1], a[j] = a[j], a[j-1]
		}
	}
}

func cmdPreloadRun(args []string) {
	fs := flag.NewFlagSet("preload-run", flag.ExitOnError)
	in := fs.String("in", "", "schedules ndjson (first line cfg)")
	out := fs.String("out", "", "trace ndjson")
	seed := fs.Int64("seed", 1, "seed")
	free := fs.Int("free", 2, "free-running repetitions with jitter per case")
	fs.String("mode", "", "ignored")
	fs.Parse(args)
	first := true
	wr := newNDWriter(*out)
	t := 0
	readLines(*in, func(line []byte) {
		if first {
			first = false
			return
		}
		var c preloadCase
		must(json.Unmarshal(line, &c))
		if c.Order == nil {
			c.Order = []int{}
		}
		t++
		hsum := int64(0)
		for _, b := range line {
			hsum = hsum*131 + int64(b)
		}
		rng := rand.New(rand.NewSource(*seed ^ hsum))
		twin := runPreload(c, 1, false, nil)
		wr.Write(preloadRec{T: t, Ev: "Preload", Case: c, Run: runPreload(c, c.W, true, nil), Twin: twin, Rep: 0})
		for r := 1; r <= *free; r++ {
			workers := []int{c.W, 2, 7, 64}[rng.Intn(4)]
			cc := c
			cc.W = workers
			wr.Write(preloadRec{T: t, Ev: "Preload", Case: cc, Run: runPreload(cc, workers, false, rand.New(rand.NewSource(rng.Int63()))), Twin: twin, Rep: r})
		}
	})
	wr.Close()
	fmt.Printf("{\"histories\":%d,\"records\":%d}\n", t, wr.n)
}
