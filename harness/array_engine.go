package main

import (
	"encoding/json"
	"flag"
	"fmt"
	"math/rand"
	"strings"
)

// Array engine: one root array "a" per history; histories are TLC-emitted tuple ops
// (MC_Array / simulate) or driver-generated; every recorded event carries the abstract
// content (read back through the public iterator) and the projected slab forest.

type runCfg struct {
	T      int    `json:"T"`
	Limit  int    `json:"limit"`
	Index0 uint64 `json:"index0"` // first slab index handed out by the ledger is Index0 + 1
}

func newArrayWorld(T int) *World {
	w := NewWorld(uint32(T))
	w.Exec(Op{Op: "new_array", New: "a", Ti: 42})
	return w
}

func cmdArrayRun(args []string) {
	fs := flag.NewFlagSet("array-run", flag.ExitOnError)
	in := fs.String("in", "", "histories ndjson (first line cfg)")
	out := fs.String("out", "", "trace ndjson")
	mode := fs.String("mode", "edge", "edge|full|tail|scan")
	tail := fs.Int("tail", 40, "tail mode: number of final operations recorded")
	probe := fs.String("probe", "", "comma list of probes run at the end of every history: iter,partial,batch,copy,mutiter")
	pseed := fs.Int64("seed", 1, "seed for probe choices")
	fs.Parse(args)
	which := map[string]bool{}
	for _, p := range strings.Split(*probe, ",") {
		if p != "" {
			which[p] = true
		}
	}
	var cfg runCfg
	first := true
	wr := newNDWriter(*out)
	t, nops := 0, 0
	readLines(*in, func(line []byte) {
		if first {
			first = false
			var hdr struct {
				Cfg runCfg `json:"cfg"`
			}
			must(json.Unmarshal(line, &hdr))
			cfg = hdr.Cfg
			ledgerIndexBase = cfg.Index0
			return
		}
		var raw []json.RawMessage
		must(json.Unmarshal(line, &raw))
		t++
		w := newArrayWorld(cfg.T)
		ops := make([]Op, len(raw))
		for i, r := range raw {
			ops[i] = parseTupleOp(r, "a")
		}
		nops += len(ops)
		from := 0
		if *mode == "edge" {
			from = len(ops) - 1
		}
		if *mode == "tail" && len(ops) > *tail {
			from = len(ops) - *tail
		}
		if *mode == "scan" {
			// boundary scan: after every operation report whether an index slab is full (one more child header would exceed
			// the maximum); the orchestrator replays TLC's one-step closure from exactly those states
			for k, op := range ops {
				w.ExecSilent(op)
				fl, rc := w.boundaryFlags("a")
				wr.Write(map[string]any{"t": t, "n": k + 1, "flags": fl, "rc": rc, "ic": append([]int{}, lastInnerCounts...)})
			}
			return
		}
		for _, op := range ops[:from] {
			w.ExecSilent(op)
		}
		wr.Write(w.rec(t, "Load", Op{}, Res{Class: "ok"}))
		for _, op := range ops[from:] {
			op := op
			ev, res := w.ExecAny(&op)
			wr.Write(w.rec(t, ev, op, res))
			if res.Class == "panic" {
				break
			}
		}
		if len(which) > 0 {
			w.RunProbes(t, "a", which, rand.New(rand.NewSource(*pseed*1000003+int64(t))), func(r Rec) { wr.Write(r) })
		}
	})
	wr.Close()
	sj, _ := json.Marshal(runStats)
	fmt.Printf("{\"histories\":%d,\"ops\":%d,\"records\":%d,\"stats\":%s}\n", t, nops, wr.n, sj)
}
