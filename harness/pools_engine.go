package main

import (
	"flag"
	"fmt"
	"math/rand"
	"reflect"
	"runtime"
	"strconv"
	"strings"
	"sync"

	"github.com/onflow/atree"
	testutils "github.com/onflow/atree/test_utils"
)

// pools-run (C16): G client goroutines, each with its own storage and containers, run map / array workloads
// (default pooled digester, colliding hash inputs, commits with several workers) concurrently without any
// synchronisation between them.  Hook events at the object pools are ordered by a global sequence and validated
// against Pools.tla; every goroutine's results and final registers are compared with a solo run of the same workload.

type poolEv struct {
	T        int      `json:"t"`
	Ev       string   `json:"ev"` // "Pool" | "Client"
	Kind     string   `json:"kind"`
	G        int      `json:"g"`
	O        int      `json:"o"`
	Conc     []string `json:"conc"`
	Solo     []string `json:"solo"`
	RegsConc []string `json:"regsconc"`
	RegsSolo []string `json:"regssolo"`
}

func gid() int {
	var buf [64]byte
	n := runtime.Stack(buf[:], false)
	f := strings.Fields(string(buf[:n]))
	if len(f) >= 2 {
		if v, err := strconv.Atoi(f[1]); err == nil {
			return v
		}
	}
	return -1
}

// clientWorkload is deterministic given its seed; it returns result tokens and final registers.
func clientWorkload(seed int64, steps int) ([]string, []string) {
	rng := rand.New(rand.NewSource(seed))
	ledger := NewLedgerSim()
	st := newStorage(ledger)
	addr := atree.Address{0, 0, 0, 0, 0, 0, 0, byte(1 + seed%7)}
	m, err := atree.NewMap(st, addr, atree.NewDefaultDigesterBuilder(), testutils.NewSimpleTypeInfo(42))
	must(err)
	a, err := atree.NewArray(st, addr, testutils.NewSimpleTypeInfo(43))
	must(err)
	// colliding hash inputs: distinct keys k and k+nkeys/2 hash alike (exact comparator): exercises collision groups with the pooled digester
	nkeys := 24
	hip := func(v atree.Value, b []byte) ([]byte, error) {
		if sv, ok := v.(testutils.StringValue); ok {
			id := idOfString(sv.String())
			return testutils.GetHashInput(mkString(id%(nkeys/2), 8), b)
		}
		return testutils.GetHashInput(v, b)
	}
	var toks []string
	tok := func(op string, err error, extra ...any) {
		toks = append(toks, fmt.Sprint(op, ":", classify(err).Class, ":", extra))
	}
	w := &World{canon: map[atree.SlabID]int{}, St: st, Ledger: ledger, RawIDs: true}
	for i := 0; i < steps; i++ {
		k := mkValue(ElemSpec{ID: 1 + rng.Intn(nkeys), Sz: 8})
		switch r := rng.Intn(10); {
		case r < 4:
			old, err := m.Set(testutils.CompareValue, hip, k, mkValue(ElemSpec{ID: 100000 + i, Sz: 12 + 20*rng.Intn(3)}))
			v, _ := w.tokenOfStorable(old)
			tok("set", err, v, m.Count())
		case r < 6:
			v, err := m.Get(testutils.CompareValue, hip, k)
			if err == nil {
				tok("get", err, w.absOfValue(v).V)
			} else {
				tok("get", err)
			}
		case r < 7:
			_, old, err := m.Remove(testutils.CompareValue, hip, k)
			v, _ := w.tokenOfStorable(old)
			tok("rem", err, v, m.Count())
		case r < 9:
			err := a.Append(mkValue(ElemSpec{ID: 200000 + i, Sz: 30 + rng.Intn(90)}))
			tok("app", err, a.Count())
		default:
			var err error
			if rng.Intn(2) == 0 {
				err = st.FastCommit(1 + rng.Intn(8))
			} else {
				err = st.NondeterministicFastCommit(1 + rng.Intn(8))
			}
			tok("commit", err)
		}
	}
	must(st.FastCommit(4))
	var ids []atree.SlabID
	for id := range ledger.Regs {
		ids = append(ids, id)
	}
	st2 := newStorage(ledger)
	must(st2.BatchPreload(ids, 5))
	tok("preload", nil, len(atree.VerifCache(st2)))
	return toks, regList(ledger)
}

func cmdPoolsRun(args []string) {
	fs := flag.NewFlagSet("pools-run", flag.ExitOnError)
	out := fs.String("out", "", "trace ndjson")
	seed := fs.Int64("seed", 1, "seed")
	g := fs.Int("g", 16, "client goroutines")
	steps := fs.Int("steps", 150, "operations per client")
	events := fs.Bool("events", true, "record pool hook events")
	fs.Parse(args)
	wr := newNDWriter(*out)
	// solo twins first (sequential)
	solo := make([][]string, *g)
	soloRegs := make([][]string, *g)
	for i := 0; i < *g; i++ {
		solo[i], soloRegs[i] = clientWorkload(*seed*1000+int64(i), *steps)
	}
	var mu sync.Mutex
	var evs []poolEv
	objs := map[uintptr]int{}
	if *events {
		atree.VerifSetEventFunc(func(kind string, obj any) {
			if !strings.HasPrefix(kind, "digester.") && !strings.HasPrefix(kind, "buffer.") {
				return
			}
			p := reflect.ValueOf(obj).Pointer()
			g := gid()
			mu.Lock()
			o, ok := objs[p]
			if !ok {
				o = len(objs) + 1
				objs[p] = o
			}
			evs = append(evs, poolEv{Ev: "Pool", Kind: kind, G: g, O: o, Conc: []string{}, Solo: []string{}, RegsConc: []string{}, RegsSolo: []string{}})
			mu.Unlock()
		})
	}
	conc := make([][]string, *g)
	concRegs := make([][]string, *g)
	var wg sync.WaitGroup
	for i := 0; i < *g; i++ {
		wg.Add(1)
		go func(i int) {
			defer wg.Done()
			conc[i], concRegs[i] = clientWorkload(*seed*1000+int64(i), *steps)
		}(i)
	}
	wg.Wait()
	atree.VerifSetEventFunc(nil)
	t := 0
	for _, e := range evs {
		t++
		e.T = t
		wr.Write(e)
	}
	for i := 0; i < *g; i++ {
		t++
		wr.Write(poolEv{T: t, Ev: "Client", G: i, Conc: conc[i], Solo: solo[i], RegsConc: concRegs[i], RegsSolo: soloRegs[i]})
	}
	wr.Close()
	fmt.Printf("{\"clients\":%d,\"events\":%d,\"records\":%d,\"objects\":%d}\n", *g, len(evs), wr.n, len(objs))
}
