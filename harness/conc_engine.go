package main

import (
	"encoding/json"
	"errors"
	"flag"
	"fmt"
	"math/rand"
	"sort"
	"sync"
	"time"

	"github.com/onflow/atree"
	testutils "github.com/onflow/atree/test_utils"
)

// conc-run (C16, C04): executes the schedules emitted by CommitConc.tla against the real FastCommit /
// NondeterministicFastCommit / BatchPreload.  The blocking verif hook is the scheduler gate: a worker that
// has finished encoding waits until the schedule releases it.  Every run is compared with the same work done
// with one worker (the sequential twin); a call that does not return is recorded as such.

type concCase struct {
	W        int    `json:"w"`
	N        int    `json:"n"`
	Mode     string `json:"mode"`
	EncErr   int    `json:"encerr"`
	FailCall int    `json:"failcall"`
	Order    []int  `json:"order"`
}

type concOutcome struct {
	Returned bool     `json:"returned"`
	Class    string   `json:"class"`
	Cat      string   `json:"cat"`
	Regs     []string `json:"regs"`
	Cache    []string `json:"cache"`
	Deltas   []string `json:"deltas"`
	Final    []string `json:"final"` // registers after retrying (fault-free, encodable) until success
	Gated    int      `json:"gated"` // results released in the forced order
}

type concRec struct {
	T    int         `json:"t"`
	Ev   string      `json:"ev"`
	Case concCase    `json:"case"`
	Run  concOutcome `json:"run"`
	Twin concOutcome `json:"twin"`
	Rep  int         `json:"rep"`
}

// errSlab is a slab whose encoding fails.
type errSlab struct {
	atree.Slab
	fail *bool
}

var errEncode = errors.New("injected encoding failure")

func (s errSlab) Encode(enc *atree.Encoder) error {
	if *s.fail {
		return atree.NewEncodingError(errEncode)
	}
	return s.Slab.Encode(enc)
}

func keysOf(m map[atree.SlabID]atree.Slab) []string {
	out := []string{}
	for id, s := range m {
		if s == nil {
			out = append(out, id.String()+"=nil")
		} else {
			out = append(out, id.String())
		}
	}
	sort.Strings(out)
	return out
}

func regList(l *LedgerSim) []string {
	out := []string{}
	for _, id := range l.SortedIDs() {
		out = append(out, id.String()+"="+shortSum(l.Regs[id]))
	}
	return out
}

// runConc executes one case with the given number of workers; gate: force the arrival order of results.
func runConc(c concCase, workers int, gate bool, jitter *rand.Rand) concOutcome {
	ledger := NewLedgerSim()
	st := newStorage(ledger)
	// baseline: n owned array slabs committed, plus two that will be deleted
	var arrs []*atree.Array
	for i := 0; i < c.N+2; i++ {
		a, err := atree.NewArray(st, atree.Address{0, 0, 0, 0, 0, 0, 0, 1}, testutils.NewSimpleTypeInfo(uint64(60+i)))
		must(err)
		must(a.Append(testutils.Uint64Value(uint64(i))))
		arrs = append(arrs, a)
	}
	must(st.FastCommit(1))
	// pending work: modify the first n slabs, delete the last two
	fail := false
	ids := make([]atree.SlabID, c.N)
	for i := 0; i < c.N; i++ {
		must(arrs[i].Append(testutils.Uint64Value(uint64(1000 + i))))
		ids[i] = arrs[i].SlabID()
	}
	if c.EncErr > 0 && c.EncErr <= c.N {
		id := ids[c.EncErr-1]
		s := atree.VerifDeltas(st)[id]
		must(st.Store(id, errSlab{Slab: s, fail: &fail}))
		fail = true
	}
	if c.Mode == "relaxed" {
		must(st.Remove(arrs[c.N].SlabID()))
		must(st.Remove(arrs[c.N+1].SlabID()))
	}
	out := concOutcome{}
	// gate
	var mu sync.Mutex
	cond := sync.NewCond(&mu)
	next := 0
	deadline := time.Now().Add(3 * time.Second)
	released := 0
	if gate || jitter != nil {
		pos := map[atree.SlabID]int{}
		for i, id := range ids {
			pos[id] = i + 1
		}
		atree.VerifSetEventFunc(func(kind string, obj any) {
			if kind != "fastcommit.encoded" && kind != "ndcommit.encoded" {
				return
			}
			id, ok := obj.(atree.SlabID)
			if !ok {
				return
			}
			if jitter != nil {
				mu.Lock()
				d := time.Duration(jitter.Intn(300)) * time.Microsecond
				mu.Unlock()
				time.Sleep(d)
				return
			}
			job := pos[id]
			mu.Lock()
			for next < len(c.Order) && c.Order[next] != job && time.Now().Before(deadline) {
				// wake up periodically: the forced order may be infeasible on this run
				waitWithTimeout(cond, 20*time.Millisecond)
			}
			if next < len(c.Order) && c.Order[next] == job {
				next++
				released++
			}
			cond.Broadcast()
			mu.Unlock()
			time.Sleep(200 * time.Microsecond) // let the released result reach the queue before the next release
		})
		defer atree.VerifSetEventFunc(nil)
	}
	if c.FailCall > 0 {
		ledger.SetFaultPlan(c.FailCall)
	}
	doneCh := make(chan error, 1)
	go func() {
		defer func() {
			if e := recover(); e != nil {
				doneCh <- fmt.Errorf("panic in commit: %v", e) // a behaviour of the real code, compared with the one-worker run
			}
		}()
		if c.Mode == "det" {
			doneCh <- st.FastCommit(workers)
		} else {
			doneCh <- st.NondeterministicFastCommit(workers)
		}
	}()
	var err error
	select {
	case err = <-doneCh:
		out.Returned = true
	case <-time.After(8 * time.Second):
		out.Returned = false
		out.Class = "no-return"
		out.Regs, out.Cache, out.Deltas, out.Final = []string{}, []string{}, []string{}, []string{}
		return out
	}
	ledger.SetFaultPlan()
	ei := classify(err)
	out.Class, out.Cat = ei.Class, ei.Cat
	if errors.Is(err, errEncode) {
		out.Class = "encoding"
	}
	out.Gated = released
	out.Regs = regList(ledger)
	out.Cache = keysOf(atree.VerifCache(st))
	out.Deltas = keysOf(atree.VerifDeltas(st))
	// retry until success without faults
	atree.VerifSetEventFunc(nil)
	fail = false
	for k := 0; k < 5; k++ {
		var rerr error
		if c.Mode == "det" {
			rerr = st.FastCommit(workers)
		} else {
			rerr = st.NondeterministicFastCommit(workers)
		}
		if rerr == nil {
			break
		}
	}
	out.Final = regList(ledger)
	return out
}

func waitWithTimeout(c *sync.Cond, d time.Duration) {
	t := time.AfterFunc(d, func() { c.Broadcast() })
	c.Wait()
	t.Stop()
}

func cmdConcRun(args []string) {
	fs := flag.NewFlagSet("conc-run", flag.ExitOnError)
	in := fs.String("in", "", "schedules ndjson (first line cfg)")
	out := fs.String("out", "", "trace ndjson")
	seed := fs.Int64("seed", 1, "seed")
	free := fs.Int("free", 3, "free-running repetitions with jitter per case")
	fs.String("mode", "", "ignored")
	fs.Parse(args)
	first := true
	wr := newNDWriter(*out)
	t := 0
	readLines(*in, func(line []byte) {
		if first {
			first = false
			return
		}
		var c concCase
		must(json.Unmarshal(line, &c))
		t++
		// per-case randomness is a function of the case itself, so that a single case replays identically
		hsum := int64(0)
		for _, b := range line {
			hsum = hsum*131 + int64(b)
		}
		rng := rand.New(rand.NewSource(*seed ^ hsum))
		twin := runConc(c, 1, false, nil)
		gate := c.Mode == "det"
		wr.Write(concRec{T: t, Ev: "Conc", Case: c, Run: runConc(c, c.W, gate, nil), Twin: twin, Rep: 0})
		for r := 1; r <= *free; r++ {
			workers := []int{c.W, 2, 7, 64}[rng.Intn(4)]
			cc := c
			cc.W = workers
			wr.Write(concRec{T: t, Ev: "Conc", Case: cc, Run: runConc(cc, workers, false, rand.New(rand.NewSource(rng.Int63()))), Twin: twin, Rep: r})
		}
	})
	wr.Close()
	fmt.Printf("{\"histories\":%d,\"records\":%d}\n", t, wr.n)
}
