package main

import (
	"crypto/sha256"
	"encoding/binary"
	"encoding/hex"
	"errors"
	"sort"

	"github.com/onflow/atree"
)

// LedgerSim is the harness's BaseStorage: a register map with an ordered call log,
// write-fault and read-fault plans, and a callback at every write call (the
// per-register linearization point of a commit).
type LedgerCall struct {
	Seq  int
	Op   string // "store" | "remove"
	ID   atree.SlabID
	Len  int
	Sum  string
	OK   bool
	Snap any // snapshot taken by OnCall before the call takes effect
}

type LedgerSim struct {
	Regs      map[atree.SlabID][]byte
	Index     map[atree.Address]uint64
	Calls     []LedgerCall
	Reads     int
	FailCalls map[int]bool // 1-based positions (within the current plan window) of write calls that fail
	planBase  int          // number of calls before the current plan window
	FailReads map[int]bool // 1-based positions of read calls that fail (window)
	readBase  int
	OnCall    func(op string, id atree.SlabID) any
}

var ledgerIndexBase uint64

var errInjected = errors.New("injected ledger fault")

func NewLedgerSim() *LedgerSim {
	return &LedgerSim{Regs: map[atree.SlabID][]byte{}, Index: map[atree.Address]uint64{}}
}

func (l *LedgerSim) Clone() *LedgerSim {
	c := NewLedgerSim()
	for k, v := range l.Regs {
		c.Regs[k] = append([]byte(nil), v...)
	}
	for k, v := range l.Index {
		c.Index[k] = v
	}
	return c
}

// SetFaultPlan makes the given (1-based) write calls, counted from now, fail.
func (l *LedgerSim) SetFaultPlan(pos ...int) {
	l.planBase = len(l.Calls)
	l.FailCalls = map[int]bool{}
	for _, p := range pos {
		if p > 0 {
			l.FailCalls[p] = true
		}
	}
}

func (l *LedgerSim) SetReadFaultPlan(pos ...int) {
	l.readBase = l.Reads
	l.FailReads = map[int]bool{}
	for _, p := range pos {
		if p > 0 {
			l.FailReads[p] = true
		}
	}
}

func shortSum(b []byte) string {
	h := sha256.Sum256(b)
	return hex.EncodeToString(h[:8])
}

func (l *LedgerSim) call(op string, id atree.SlabID, data []byte) error {
	var snap any
	if l.OnCall != nil {
		snap = l.OnCall(op, id)
	}
	seq := len(l.Calls) + 1
	fail := l.FailCalls[seq-l.planBase]
	c := LedgerCall{Seq: seq, Op: op, ID: id, Len: len(data), OK: !fail, Snap: snap}
	if data != nil {
		c.Sum = shortSum(data)
	}
	l.Calls = append(l.Calls, c)
	if fail {
		return errInjected
	}
	if op == "store" {
		l.Regs[id] = append([]byte(nil), data...)
	} else {
		delete(l.Regs, id)
	}
	return nil
}

func (l *LedgerSim) Store(id atree.SlabID, data []byte) error { return l.call("store", id, data) }
func (l *LedgerSim) Remove(id atree.SlabID) error             { return l.call("remove", id, nil) }

func (l *LedgerSim) Retrieve(id atree.SlabID) ([]byte, bool, error) {
	l.Reads++
	if l.FailReads[l.Reads-l.readBase] {
		return nil, false, errInjected
	}
	d, ok := l.Regs[id]
	return d, ok, nil
}

func (l *LedgerSim) GenerateSlabID(address atree.Address) (atree.SlabID, error) {
	l.Index[address]++
	var idx atree.SlabIndex
	// ledgerIndexBase (header field "index0"): slab indexes start above it, so that identifiers straddle byte boundaries
	// (255 / 256, 65535 / 65536) within short histories
	binary.BigEndian.PutUint64(idx[:], l.Index[address]+ledgerIndexBase)
	return atree.NewSlabID(address, idx), nil
}

func (l *LedgerSim) SegmentCounts() int { return len(l.Regs) }
func (l *LedgerSim) Size() int {
	n := 0
	for _, v := range l.Regs {
		n += len(v)
	}
	return n
}
func (l *LedgerSim) BytesRetrieved() int   { return 0 }
func (l *LedgerSim) BytesStored() int      { return 0 }
func (l *LedgerSim) SegmentsReturned() int { return 0 }
func (l *LedgerSim) SegmentsUpdated() int  { return 0 }
func (l *LedgerSim) SegmentsTouched() int  { return 0 }
func (l *LedgerSim) ResetReporter()        {}

// SortedIDs returns register ids in ascending (address, index) order.
func (l *LedgerSim) SortedIDs() []atree.SlabID {
	ids := make([]atree.SlabID, 0, len(l.Regs))
	for id := range l.Regs {
		ids = append(ids, id)
	}
	sort.Slice(ids, func(i, j int) bool { return ids[i].Compare(ids[j]) < 0 })
	return ids
}

// Digest returns id -> short sha of every register (the "RunEnd" token map).
func (l *LedgerSim) Digest() map[string]string {
	m := map[string]string{}
	for id, d := range l.Regs {
		m[id.String()] = shortSum(d)
	}
	return m
}

func mkSlabID(owner, index uint64) atree.SlabID {
	var a atree.Address
	binary.BigEndian.PutUint64(a[:], owner)
	var idx atree.SlabIndex
	binary.BigEndian.PutUint64(idx[:], index)
	return atree.NewSlabID(a, idx)
}
