package main

import (
	"encoding/json"
	"fmt"
	"sort"

	"github.com/onflow/atree"
	testutils "github.com/onflow/atree/test_utils"
)

// Op is one public-API call (or storage event) in a history.
type Op struct {
	Op    string   `json:"op"`
	H     string   `json:"h"`     // handle acted on
	I     int      `json:"i"`     // index / range start
	J     int      `json:"j"`     // range end
	E     ElemSpec `json:"e"`     // element / value
	K     ElemSpec `json:"k"`     // key (maps)
	Ti    int      `json:"ti"`    // type info value
	Rej   bool     `json:"rej"`   // a request the model expects to be rejected (C18)
	Pairs [][2]int `json:"pairs"` // n.itermut: <<child container number, id of the element appended to it>>
	Mode  string   `json:"mode"`  // commit kind
	W     int      `json:"wk"`    // workers
	Fail  []int    `json:"fail"`  // failing ledger write calls (1-based within the op)
	New   string   `json:"new"`   // name for a handle created by the op
	Keep  bool     `json:"keep"`  // a removed / overwritten container is kept by the caller (becomes a detached root) instead of disposed
}

type Res struct {
	Class string `json:"class"`
	Cat   string `json:"cat"`
	Found bool   `json:"found"` // maps: key was present
	Kv    int    `json:"kv"`    // maps: id of the returned key (remove)
	V     int    `json:"v"`     // returned element id (0 = none)
	Vc    string `json:"vc"`    // class of the returned element
	N     int    `json:"n"`     // Count() of the handle after the call
	Seq   []int  `json:"seq"`   // sequence results (pop, iterate, range)
	Rid   int    `json:"rid"`   // canonical root identifier of the handle
}

type RecCfg struct {
	Builtin   bool `json:"builtin"` // map driven with the built-in digester: digests are not known to the trace specification
	T         int  `json:"T"`
	MaxArr    int  `json:"maxarr"`
	MaxMapEl  int  `json:"maxmapel"`
	MaxMapKey int  `json:"maxmapkey"`
}

type Rec struct {
	T         int       `json:"t"`
	Ev        string    `json:"ev"`
	Op        string    `json:"op"`
	H         string    `json:"h"`
	Hv        int       `json:"hv"`   // canonical value id of the container the handle names
	Keep      bool      `json:"keep"` // a handed-back container is kept by the caller
	I         int       `json:"i"`
	J         int       `json:"j"`
	E         ElemSpec  `json:"e"`
	K         ElemSpec  `json:"k"`
	Kd        []int     `json:"kd"` // digest vector of the key (maps)
	Ti        int       `json:"ti"`
	Res       Res       `json:"res"`
	Roots     []RootObs `json:"roots"`
	St        StoreObs  `json:"st"`
	Cfg       RecCfg    `json:"cfg"`
	Mode      string    `json:"mode"`      // commit kind
	Calls     []CallObs `json:"calls"`     // ledger write calls issued by this event, in order
	Cold      []RootObs `json:"cold"`      // commit events: the roots as reconstructed by a brand-new storage from the registers alone
	Regs      []RegObs  `json:"regs"`      // commit / run-end events: every register (canonical id, short hash, length)
	Known     bool      `json:"known"`     // Load: cold holds the roots observed from the registers at the last successful commit
	Probe     ProbeObs  `json:"probe"`     // probe events (iterators, bulk build, copy)
	Pairs     [][2]int  `json:"pairs"`     // n.itermut
	ColdReach []int     `json:"coldreach"` // commit events: identifiers reached from the roots using the registers alone
	ColdBad   int       `json:"coldbad"`   // commit events: references that do not resolve / registers that do not decode, in the registers alone
}

type CallObs struct {
	Op    string `json:"op"`
	ID    int    `json:"id"`
	Owner int    `json:"owner"`
	Index int    `json:"index"`
	OK    bool   `json:"ok"`
}

type RegObs struct {
	Key string `json:"key"` // raw identifier (stable across runs)
	ID  int    `json:"id"`
	Sum string `json:"sum"`
	Len int    `json:"len"`
	// byte-level facts measured on the raw register (C06, C07)
	Root    bool `json:"root"`    // IsRootOfAnObject(raw)
	Ptr     bool `json:"ptr"`     // HasPointers(raw)
	Lim     bool `json:"lim"`     // HasSizeLimit(raw)
	HasNext bool `json:"hasnext"` // sibling link present in the encoding
	IsData  bool `json:"isdata"`  // array data / map data / collision group slab
	Compact bool `json:"compact"` // shared section holds compact-map extra data
	Body    int  `json:"body"`    // len(raw) minus the root's extra-data section and the shared inlined-extra-data section
	Reenc   bool `json:"reenc"`   // EncodeSlab(DecodeSlab(raw)) == raw
	Dsz     int  `json:"dsz"`     // ByteSize() of the slab decoded from the register
	Msz     int  `json:"msz"`     // ByteSize() of the in-memory slab that produced the register (0 if not loaded)
}

func (w *World) cfg() RecCfg {
	return RecCfg{Builtin: builtinMask != 0, T: int(w.T), MaxArr: int(w.Th.MaxInlineArrayElt), MaxMapEl: int(w.Th.MaxInlineMapElt), MaxMapKey: int(w.Th.MaxInlineMapKey)}
}

// Stats accumulated over all recorded observations of a run (vacuity indicators for the evidence).
type RunStats struct {
	MaxDepth  int            `json:"max_depth"`
	MaxSlabs  int            `json:"max_slabs"`
	MaxCount  int            `json:"max_count"`
	MaxFanout int            `json:"max_root_children"` // most children seen in a root index slab
	FullRoots int            `json:"records_with_full_root_index_slab"`
	Events    map[string]int `json:"events"`
	Rejected  map[string]int `json:"rejected"`
	ElemClass map[string]int `json:"elem_classes"`
}

var runStats = RunStats{Events: map[string]int{}, Rejected: map[string]int{}, ElemClass: map[string]int{}}

func nodeDepth(n *Node) int {
	d := 0
	for _, c := range n.C {
		if x := nodeDepth(c); x > d {
			d = x
		}
	}
	return d + 1
}

func (w *World) rec(t int, ev string, op Op, res Res) Rec {
	roots, st := w.Observe()
	runStats.Events[ev]++
	if res.Class != "ok" {
		runStats.Rejected[ev+":"+res.Class]++
	}
	for _, r := range roots {
		if d := nodeDepth(r.F[0]); d > runStats.MaxDepth {
			runStats.MaxDepth = d
		}
		if r.N > runStats.MaxCount {
			runStats.MaxCount = r.N
		}
		if f := len(r.F[0].C); f > 0 {
			if f > runStats.MaxFanout {
				runStats.MaxFanout = f
			}
			// an index slab that cannot take one more child header without exceeding the maximum
			per := 14
			if r.Kind == "M" {
				per = 18
			}
			if r.F[0].Sz+per > int(w.Th.Max) {
				runStats.FullRoots++
			}
		}
	}
	if len(st.Reach) > runStats.MaxSlabs {
		runStats.MaxSlabs = len(st.Reach)
	}
	if res.Seq == nil {
		res.Seq = []int{}
	}
	kd := []int{}
	if h, ok := w.H[op.H]; ok && h.Kind == "M" && op.K.ID != 0 {
		if h.Dig != nil {
			v := h.Dig.Vec(op.K.ID)
			kd = []int{int(v[0]), int(v[1]), int(v[2]), int(v[3])}
		} else {
			kd = []int{0, 0, 0, 0}
		}
	}
	hv := 0
	if h, ok := w.H[op.H]; ok {
		if h.Kind == "A" {
			hv = w.cid(valueIDToSlabID(h.Arr.ValueID()))
		} else {
			hv = w.cid(valueIDToSlabID(h.Map.ValueID()))
		}
	}
	r := Rec{T: t, Ev: ev, Op: op.Op, Hv: hv, Keep: op.Keep, H: op.H, I: op.I, J: op.J, E: op.E, K: op.K, Kd: kd, Ti: op.Ti, Res: res, Roots: roots, St: st, Cfg: w.cfg(),
		Mode: op.Mode, Calls: []CallObs{}, Cold: []RootObs{}, Regs: []RegObs{}, Probe: emptyProbe(), Pairs: op.Pairs}
	if r.Pairs == nil {
		r.Pairs = [][2]int{}
	}
	r.ColdReach = []int{}
	if w.lastCalls != nil {
		r.Calls = w.lastCalls
		w.lastCalls = nil
	}
	if ev == "Commit" || ev == "RunEnd" {
		r.Regs = w.RegObs()
		if res.Class == "ok" {
			r.Cold = w.ColdObserve()
			r.ColdReach, r.ColdBad = w.ColdReach, w.ColdBad
			if r.ColdReach == nil {
				r.ColdReach = []int{}
			}
			w.committedRoots, w.commitKnown = r.Cold, true
		} else {
			w.commitKnown = false
		}
	}
	if ev == "Load" && w.commitKnown {
		r.Cold, r.Known = w.committedRoots, true
	}
	return r
}

// boundaryFlags names the size boundaries the container of handle name sits on right now.
var lastInnerCounts []int // child counts of the inner (non-root) index slabs seen by the last boundaryFlags call

func (w *World) boundaryFlags(name string) ([]string, int) {
	lastInnerCounts = lastInnerCounts[:0]
	h, ok := w.H[name]
	if !ok {
		return []string{}, 0
	}
	p := w.newProjector()
	root := p.nodeOfSlab(w.rootSlabOf(h))
	per := 14
	if h.Kind == "M" {
		per = 18
	}
	seen := map[string]bool{}
	var walk func(n *Node, isRoot bool)
	walk = func(n *Node, isRoot bool) {
		if len(n.C) == 0 {
			return
		}
		if n.Sz+per > int(w.Th.Max) {
			if isRoot {
				seen["rootfull"] = true
			} else {
				seen["midfull"] = true
			}
		}
		for _, c := range n.C {
			walk(c, false)
		}
	}
	walk(root, true)
	// two adjacent inner (non-root) index slabs that both hold the minimum number of children: the next child lost by either of
	// them decides between borrowing from and merging with a sibling that has nothing to spare
	var inner func(n *Node)
	inner = func(n *Node) {
		for i, c := range n.C {
			if len(c.C) > 0 {
				lastInnerCounts = append(lastInnerCounts, len(c.C))
				atMin := func(x *Node) bool { return len(x.C) > 0 && x.Sz-per < int(w.Th.Min) }
				if i+1 < len(n.C) && atMin(c) && atMin(n.C[i+1]) {
					seen["innermin2"] = true
				}
				inner(c)
			}
		}
	}
	inner(root)
	out := []string{}
	for k := range seen {
		out = append(out, k)
	}
	sort.Strings(out)
	return out, len(root.C)
}

func resOf(err error) Res {
	ei := classify(err)
	return Res{Class: ei.Class, Cat: ei.Cat, Seq: []int{}}
}

// tokenOfStorable resolves a storable handed back by the library to (element id, class).
func (w *World) tokenOfStorable(st atree.Storable) (int, string) {
	if st == nil {
		return 0, ""
	}
	p := w.newProjector()
	e := p.elemOf(st)
	return e.V, e.C
}

// dispose releases everything a handed-back storable owns (the caller's duty in C09).
func (w *World) dispose(st atree.Storable) {
	if st == nil {
		return
	}
	for {
		if ss, ok := st.(testutils.SomeStorable); ok {
			st = ss.Storable
			continue
		}
		break
	}
	switch x := st.(type) {
	case atree.SlabIDStorable:
		w.disposeSlab(atree.SlabID(x))
	case *atree.ArrayDataSlab, *atree.MapDataSlab:
		// an inlined container handed back as is (bulk pop): everything it references must be released too.
		// Done the way a caller does it - turn the storable into a value and pop it - because only the library knows
		// which of its references are values (children, large values) and which are its own auxiliary slabs
		// (an inlined map may hold an external collision group, released by the map's own PopIterate).
		v, err := st.StoredValue(w.St)
		must(err)
		switch c := v.(type) {
		case *atree.Array:
			must(c.PopIterate(func(st atree.Storable) { w.dispose(st) }))
		case *atree.OrderedMap:
			must(c.PopIterate(func(k, v atree.Storable) { w.dispose(k); w.dispose(v) }))
		}
	}
}

func (w *World) disposeSlab(id atree.SlabID) {
	if w.St.RetrieveIfLoaded(id) == nil {
		// not loaded: a caller that knows (from its static types) that the reference is a large scalar value removes the slab
		// without reading it first; the harness learns the kind from the raw register, without touching the storage
		if raw, ok := w.Ledger.Regs[id]; ok {
			if ds, err := atree.DecodeSlab(id, raw, decMode(), testutils.DecodeStorable, decodeTypeInfo); err == nil {
				if _, isStorable := ds.(*atree.StorableSlab); isStorable {
					must(w.St.Remove(id))
					return
				}
			}
		}
	}
	s, found, err := w.St.Retrieve(id)
	must(err)
	if !found {
		return
	}
	switch s.(type) {
	case *atree.StorableSlab:
		must(w.St.Remove(id))
		return
	}
	v, err := s.StoredValue(w.St)
	must(err)
	switch c := v.(type) {
	case *atree.Array:
		must(c.PopIterate(func(st atree.Storable) { w.dispose(st) }))
		must(w.St.Remove(id))
	case *atree.OrderedMap:
		must(c.PopIterate(func(k, v atree.Storable) { w.dispose(k); w.dispose(v) }))
		must(w.St.Remove(id))
	}
}

func (w *World) handle(name string) *Handle {
	h, ok := w.H[name]
	if !ok {
		panic("unknown handle " + name)
	}
	return h
}

// idx translates a model index: -(k+1) stands for 2^32 + k (TLC integers are 32-bit).
func idx(i int) uint64 {
	if i < 0 {
		return (1 << 32) + uint64(-i-1)
	}
	return uint64(i)
}

// Exec runs one operation; returns the event name and result.
func (w *World) Exec(op Op) (string, Res) {
	switch op.Op {
	case "new_array":
		a, err := atree.NewArray(w.St, w.Addr, testutils.NewSimpleTypeInfo(uint64(op.Ti)))
		r := resOf(err)
		if err == nil {
			w.H[op.New] = &Handle{Name: op.New, Kind: "A", Arr: a}
			w.Roots = append(w.Roots, op.New)
			r.Rid = w.cid(a.SlabID())
		}
		return "NewArray", r
	case "ains":
		h := w.handle(op.H)
		err := h.Arr.Insert(idx(op.I), mkValue(op.E))
		r := resOf(err)
		r.N = int(h.Arr.Count())
		r.Rid = w.cid(h.Arr.SlabID())
		return "AInsert", r
	case "aapp":
		h := w.handle(op.H)
		err := h.Arr.Append(mkValue(op.E))
		r := resOf(err)
		r.N = int(h.Arr.Count())
		r.Rid = w.cid(h.Arr.SlabID())
		return "AAppend", r
	case "aset":
		h := w.handle(op.H)
		old, err := h.Arr.Set(idx(op.I), mkValue(op.E))
		r := resOf(err)
		if err == nil {
			r.V, r.Vc = w.tokenOfStorable(old)
			w.dispose(old)
		}
		r.N = int(h.Arr.Count())
		r.Rid = w.cid(h.Arr.SlabID())
		return "ASet", r
	case "arem":
		h := w.handle(op.H)
		old, err := h.Arr.Remove(idx(op.I))
		r := resOf(err)
		if err == nil {
			r.V, r.Vc = w.tokenOfStorable(old)
			w.dispose(old)
		}
		r.N = int(h.Arr.Count())
		r.Rid = w.cid(h.Arr.SlabID())
		return "ARemove", r
	case "aget":
		h := w.handle(op.H)
		v, err := h.Arr.Get(idx(op.I))
		r := resOf(err)
		if err == nil {
			a := w.absOfValue(v)
			r.V, r.Vc = a.V, a.C
		}
		r.N = int(h.Arr.Count())
		r.Rid = w.cid(h.Arr.SlabID())
		return "AGet", r
	case "apop":
		h := w.handle(op.H)
		var popped []atree.Storable
		err := h.Arr.PopIterate(func(st atree.Storable) { popped = append(popped, st) })
		r := resOf(err)
		for _, st := range popped {
			v, _ := w.tokenOfStorable(st)
			r.Seq = append(r.Seq, v)
		}
		for _, st := range popped {
			w.dispose(st)
		}
		r.N = int(h.Arr.Count())
		r.Rid = w.cid(h.Arr.SlabID())
		return "APop", r
	case "asettype":
		h := w.handle(op.H)
		err := h.Arr.SetType(testutils.NewSimpleTypeInfo(uint64(op.Ti)))
		r := resOf(err)
		r.N = int(h.Arr.Count())
		r.Rid = w.cid(h.Arr.SlabID())
		return "ASetType", r
	case "commit":
		start := len(w.Ledger.Calls)
		w.Ledger.SetFaultPlan(op.Fail...)
		wk := op.W
		if wk <= 0 {
			wk = w.Workers
		}
		var err error
		if op.Mode == "nondet" {
			err = w.St.NondeterministicFastCommit(wk)
		} else {
			err = w.St.FastCommit(wk)
		}
		w.Ledger.SetFaultPlan()
		w.lastCalls = []CallObs{}
		for _, c := range w.Ledger.Calls[start:] {
			w.lastCalls = append(w.lastCalls, CallObs{Op: c.Op, ID: w.cid(c.ID), Owner: int(c.ID.AddressAsUint64()), Index: int(c.ID.IndexAsUint64()), OK: c.OK})
		}
		if err == nil {
			w.pendingColdRefresh = true
			w.rememberRoots()
		} else {
			w.commitKnown = false
		}
		return "Commit", resOf(err)
	case "dropcache":
		w.St.DropCache()
		// handle-tree rule (iv): only root handles survive a replacement of cached slab objects
		for name, h := range w.H {
			if h.Parent != "" {
				delete(w.H, name)
			}
		}
		return "DropCache", resOf(nil)
	case "crash":
		// abandon the in-memory storage; open a brand-new one over the ledger and reopen every root by its identifier
		return "Crash", w.Reopen()
	case "new_map":
		dig := &TableDigesterBuilder{Table: w.DigTable, Default: w.DigDefault}
		m, err := atree.NewMap(w.St, w.Addr, dig, testutils.NewSimpleTypeInfo(uint64(op.Ti)))
		r := resOf(err)
		if err == nil {
			w.H[op.New] = &Handle{Name: op.New, Kind: "M", Map: m, Dig: dig}
			w.Roots = append(w.Roots, op.New)
			r.Rid = w.cid(m.SlabID())
		}
		return "NewMap", r
	case "mset":
		h := w.handle(op.H)
		old, err := h.Map.Set(testutils.CompareValue, testutils.GetHashInput, mkValue(op.K), mkValue(op.E))
		r := resOf(err)
		if err == nil && old != nil {
			r.Found = true
			r.V, r.Vc = w.tokenOfStorable(old)
			w.dispose(old)
		}
		r.N = int(h.Map.Count())
		r.Rid = w.cid(h.Map.SlabID())
		return "MSet", r
	case "mget":
		h := w.handle(op.H)
		v, err := h.Map.Get(testutils.CompareValue, testutils.GetHashInput, mkValue(op.K))
		r := resOf(err)
		if err == nil {
			a := w.absOfValue(v)
			r.Found = true
			r.V, r.Vc = a.V, a.C
		}
		r.N = int(h.Map.Count())
		r.Rid = w.cid(h.Map.SlabID())
		return "MGet", r
	case "mhas":
		h := w.handle(op.H)
		ok, err := h.Map.Has(testutils.CompareValue, testutils.GetHashInput, mkValue(op.K))
		r := resOf(err)
		r.Found = ok
		r.N = int(h.Map.Count())
		r.Rid = w.cid(h.Map.SlabID())
		return "MHas", r
	case "mrem":
		h := w.handle(op.H)
		k, v, err := h.Map.Remove(testutils.CompareValue, testutils.GetHashInput, mkValue(op.K))
		r := resOf(err)
		if err == nil {
			r.Found = true
			r.Kv, _ = w.tokenOfStorable(k)
			r.V, r.Vc = w.tokenOfStorable(v)
			w.dispose(k)
			w.dispose(v)
		}
		r.N = int(h.Map.Count())
		r.Rid = w.cid(h.Map.SlabID())
		return "MRemove", r
	case "mpop":
		h := w.handle(op.H)
		var ks, vs []atree.Storable
		err := h.Map.PopIterate(func(k, v atree.Storable) { ks = append(ks, k); vs = append(vs, v) })
		r := resOf(err)
		for i := range ks {
			kid, _ := w.tokenOfStorable(ks[i])
			vid, _ := w.tokenOfStorable(vs[i])
			r.Seq = append(r.Seq, kid, vid)
		}
		for i := range ks {
			w.dispose(ks[i])
			w.dispose(vs[i])
		}
		r.N = int(h.Map.Count())
		r.Rid = w.cid(h.Map.SlabID())
		return "MPop", r
	case "msettype":
		h := w.handle(op.H)
		err := h.Map.SetType(testutils.NewSimpleTypeInfo(uint64(op.Ti)))
		r := resOf(err)
		r.N = int(h.Map.Count())
		r.Rid = w.cid(h.Map.SlabID())
		return "MSetType", r
	}
	panic("unknown op " + op.Op)
}

// parseTupleOp converts TLC's compact tuple form of an op into an Op.
func parseTupleOp(raw json.RawMessage, handle string) Op {
	var t []any
	must(json.Unmarshal(raw, &t))
	name := t[0].(string)
	num := func(k int) int { return int(t[k].(float64)) }
	switch name {
	case "ins":
		return Op{Op: "ains", H: handle, I: num(1), E: ElemSpec{ID: num(2), Sz: num(3)}}
	case "set":
		return Op{Op: "aset", H: handle, I: num(1), E: ElemSpec{ID: num(2), Sz: num(3)}}
	case "rem":
		return Op{Op: "arem", H: handle, I: num(1)}
	case "get":
		return Op{Op: "aget", H: handle, I: num(1)}
	case "pop":
		return Op{Op: "apop", H: handle}
	case "settype":
		return Op{Op: "asettype", H: handle, Ti: num(1)}
	case "mset": // k, ksz, vid, vsz
		return Op{Op: "mset", H: handle, K: ElemSpec{ID: num(1), Sz: num(2)}, E: ElemSpec{ID: num(3), Sz: num(4)}}
	case "mrem":
		return Op{Op: "mrem", H: handle, K: ElemSpec{ID: num(1), Sz: num(2)}}
	case "mget":
		return Op{Op: "mget", H: handle, K: ElemSpec{ID: num(1), Sz: num(2)}}
	case "mhas":
		return Op{Op: "mhas", H: handle, K: ElemSpec{ID: num(1), Sz: num(2)}}
	case "mpop":
		return Op{Op: "mpop", H: handle}
	case "msettype":
		return Op{Op: "msettype", H: handle, Ti: num(1)}
	case "commit": // mode, workers, failing call position (0 = none)
		op := Op{Op: "commit", Mode: t[1].(string), W: num(2)}
		if len(t) > 3 && num(3) > 0 {
			op.Fail = []int{num(3)}
		}
		return op
	case "dropcache":
		return Op{Op: "dropcache"}
	case "crash":
		return Op{Op: "crash"}
	}
	panic(fmt.Sprintf("unknown tuple op %v", t))
}

// ExecSilent runs an operation without recording it, keeping the committed snapshot up to date.
func (w *World) ExecSilent(op Op) {
	ev, res := w.Exec(op)
	w.lastCalls = nil
	if ev == "Commit" && res.Class == "ok" {
		w.committedRoots, w.commitKnown = w.ColdObserve(), true
	}
}

// ---------------------------------------------------------------- nested containers

// valueFor builds the value for an element spec; for containers it returns the handle that now names it.
func (w *World) valueFor(e *ElemSpec, newName, parent string) (atree.Value, *Handle) {
	var v atree.Value
	var h *Handle
	switch {
	case e.New == "A":
		a, err := atree.NewArray(w.St, w.Addr, testutils.NewSimpleTypeInfo(uint64(43)))
		must(err)
		h = &Handle{Name: newName, Kind: "A", Arr: a, Parent: parent}
		e.Vid = w.cid(valueIDToSlabID(a.ValueID()))
		e.Ti = tiString(a.Type())
		v = a
	case e.New == "M" || e.New == "C":
		var ti atree.TypeInfo = testutils.NewSimpleTypeInfo(uint64(44))
		if e.New == "C" {
			// composite type: same-typed inlined siblings share the compact encoding (hoisted keys / digests)
			ti = compTypeInfo{7}
		}
		m, err := atree.NewMap(w.St, w.Addr, atree.NewDefaultDigesterBuilder(), ti)
		must(err)
		h = &Handle{Name: newName, Kind: "M", Map: m, Parent: parent}
		e.Vid = w.cid(valueIDToSlabID(m.ValueID()))
		e.Ti = tiString(m.Type())
		e.New = "M"
		v = m
	case e.Ref != "":
		h = w.handle(e.Ref)
		h.Parent = parent
		if h.Kind == "A" {
			v = h.Arr
			e.Vid = w.cid(valueIDToSlabID(h.Arr.ValueID()))
		} else {
			v = h.Map
			e.Vid = w.cid(valueIDToSlabID(h.Map.ValueID()))
		}
		// no longer a root held by the caller
		for i, n := range w.Roots {
			if n == e.Ref {
				w.Roots = append(w.Roots[:i:i], w.Roots[i+1:]...)
				break
			}
		}
	default:
		return mkValue(*e), nil
	}
	for i := 0; i < e.W; i++ {
		v = testutils.NewSomeValue(v)
	}
	if w.NameOfVid == nil {
		w.NameOfVid = map[int]string{}
	}
	w.NameOfVid[e.Vid] = h.Name
	return v, h
}

// retireSubtree removes every handle obtained (transitively) through the named handle.
func (w *World) retireSubtree(name string) {
	for n, h := range w.H {
		if h.Parent == name {
			w.retireSubtree(n)
			delete(w.H, n)
		}
	}
}

// adopt registers the container behind a value returned by Get / iteration as the live handle `name`.
func (w *World) adopt(v atree.Value, name, parent string) (int, string) {
	for {
		if sv, ok := v.(testutils.SomeValue); ok {
			v = sv.Value
			continue
		}
		break
	}
	switch c := v.(type) {
	case *atree.Array:
		w.retireSubtree(name)
		w.H[name] = &Handle{Name: name, Kind: "A", Arr: c, Parent: parent}
		return w.cid(valueIDToSlabID(c.ValueID())), "A"
	case *atree.OrderedMap:
		w.retireSubtree(name)
		w.H[name] = &Handle{Name: name, Kind: "M", Map: c, Parent: parent}
		return w.cid(valueIDToSlabID(c.ValueID())), "M"
	}
	return 0, ""
}

// handBack deals with a storable the library handed back on removal / overwrite: containers are either kept
// by the caller as detached roots (reusing the live handle if there is one) or disposed of, with their handles.
func (w *World) handBack(st atree.Storable, keep bool, keepName string) (int, string) {
	v, c := w.tokenOfStorable(st)
	if st == nil {
		return 0, ""
	}
	if c != "RA" && c != "RM" {
		w.dispose(st)
		return v, c
	}
	// find the live handle of this container, if any
	var live string
	for n, h := range w.H {
		var vid atree.ValueID
		if h.Kind == "A" {
			vid = h.Arr.ValueID()
		} else {
			vid = h.Map.ValueID()
		}
		if w.cid(valueIDToSlabID(vid)) == v {
			live = n
		}
	}
	if !keep {
		if live != "" {
			w.retireSubtree(live)
			delete(w.H, live)
		}
		w.dispose(st)
		return v, c
	}
	if live == "" {
		inner := st
		for {
			if ss, ok := inner.(testutils.SomeStorable); ok {
				inner = ss.Storable
				continue
			}
			break
		}
		id := atree.SlabID(inner.(atree.SlabIDStorable))
		if c == "RA" {
			a, err := atree.NewArrayWithRootID(w.St, id)
			must(err)
			w.H[keepName] = &Handle{Name: keepName, Kind: "A", Arr: a}
		} else {
			m, err := atree.NewMapWithRootID(w.St, id, atree.NewDefaultDigesterBuilder())
			must(err)
			w.H[keepName] = &Handle{Name: keepName, Kind: "M", Map: m}
		}
		live = keepName
	}
	w.H[live].Parent = ""
	w.Roots = append(w.Roots, live)
	return v, c
}

// discardFresh releases a container the harness created as the value of a request that was then rejected
// (the caller still owns it).
func (w *World) discardFresh(nh *Handle) {
	if nh.Kind == "A" {
		must(nh.Arr.PopIterate(func(st atree.Storable) { w.dispose(st) }))
		must(w.St.Remove(nh.Arr.SlabID()))
	} else {
		must(nh.Map.PopIterate(func(k, v atree.Storable) { w.dispose(k); w.dispose(v) }))
		must(w.St.Remove(nh.Map.SlabID()))
	}
}

// ExecNested runs the nested-engine operations ("n.*"); handles are named by the model's container numbers.
func (w *World) ExecNested(op *Op) (string, Res) {
	h := w.handle(op.H)
	fin := func(err error, r Res) Res {
		ei := classify(err)
		r.Class, r.Cat = ei.Class, ei.Cat
		if r.Seq == nil {
			r.Seq = []int{}
		}
		if h.Kind == "A" {
			r.N = int(h.Arr.Count())
		} else {
			r.N = int(h.Map.Count())
		}
		return r
	}
	switch op.Op {
	case "n.ins", "n.app":
		v, nh := w.valueFor(&op.E, op.New, op.H)
		var err error
		if op.Op == "n.app" {
			err = h.Arr.Append(v)
		} else {
			err = h.Arr.Insert(idx(op.I), v)
		}
		if err == nil && nh != nil {
			w.H[nh.Name] = nh
		}
		if err != nil && nh != nil {
			w.discardFresh(nh)
		}
		return "NIns", fin(err, Res{})
	case "n.set":
		v, nh := w.valueFor(&op.E, op.New, op.H)
		old, err := h.Arr.Set(idx(op.I), v)
		r := Res{}
		if err == nil {
			if nh != nil {
				w.H[nh.Name] = nh
			}
			r.V, r.Vc = w.handBack(old, op.Keep, keepName(op))
		} else if nh != nil {
			w.discardFresh(nh)
		}
		return "NSet", fin(err, r)
	case "n.rem":
		old, err := h.Arr.Remove(idx(op.I))
		r := Res{}
		if err == nil {
			r.V, r.Vc = w.handBack(old, op.Keep, op.New)
		}
		return "NRem", fin(err, r)
	case "n.get":
		v, err := h.Arr.Get(idx(op.I))
		r := Res{}
		if err == nil {
			a := w.absOfValue(v)
			r.V, r.Vc = a.V, a.C
			if op.New != "" {
				w.adopt(v, op.New, op.H)
			}
		}
		return "NGet", fin(err, r)
	case "n.pop":
		var popped []atree.Storable
		var err error
		if h.Kind == "A" {
			err = h.Arr.PopIterate(func(st atree.Storable) { popped = append(popped, st) })
		} else {
			err = h.Map.PopIterate(func(k, v atree.Storable) { popped = append(popped, k, v) })
		}
		r := Res{}
		for _, st := range popped {
			v, _ := w.handBack(st, false, "")
			r.Seq = append(r.Seq, v)
		}
		w.retireSubtree(op.H)
		return "NPop", fin(err, r)
	case "n.mset":
		v, nh := w.valueFor(&op.E, op.New, op.H)
		old, err := h.Map.Set(testutils.CompareValue, testutils.GetHashInput, mkValue(op.K), v)
		r := Res{}
		if err == nil {
			if nh != nil {
				w.H[nh.Name] = nh
			}
			if old != nil {
				r.Found = true
				r.V, r.Vc = w.handBack(old, op.Keep, keepName(op))
			}
		}
		return "NMSet", fin(err, r)
	case "n.mrem":
		k, v, err := h.Map.Remove(testutils.CompareValue, testutils.GetHashInput, mkValue(op.K))
		r := Res{}
		if err == nil {
			r.Found = true
			r.Kv, _ = w.tokenOfStorable(k)
			w.dispose(k)
			r.V, r.Vc = w.handBack(v, op.Keep, op.New)
		}
		return "NMRem", fin(err, r)
	case "n.mget":
		v, err := h.Map.Get(testutils.CompareValue, testutils.GetHashInput, mkValue(op.K))
		r := Res{}
		if err == nil {
			a := w.absOfValue(v)
			r.Found = true
			r.V, r.Vc = a.V, a.C
			if op.New != "" {
				w.adopt(v, op.New, op.H)
			}
		}
		return "NMGet", fin(err, r)
	case "n.iter":
		// re-acquire handles to every child container through the MUTABLE iterator of the parent
		var err error
		adoptChild := func(v atree.Value) {
			a := w.absOfValue(v)
			if a.C == "A" || a.C == "M" {
				if name, ok := w.NameOfVid[a.V]; ok {
					w.adopt(v, name, op.H)
				}
			}
		}
		r := Res{}
		if h.Kind == "A" {
			err = h.Arr.Iterate(func(v atree.Value) (bool, error) {
				adoptChild(v)
				r.Seq = append(r.Seq, w.absOfValue(v).V)
				return true, nil
			})
		} else {
			err = h.Map.Iterate(testutils.CompareValue, testutils.GetHashInput, func(k, v atree.Value) (bool, error) {
				adoptChild(v)
				r.Seq = append(r.Seq, w.absOfValue(k).V, w.absOfValue(v).V)
				return true, nil
			})
		}
		return "NIter", fin(err, r)
	case "n.itermut":
		// mutable iteration over the parent; every child ARRAY met is mutated inside the callback through the value the iterator
		// handed out (which becomes the live handle of that child)
		idOf := map[string]int{}
		vidOfName := map[string]int{}
		for vid, name := range w.NameOfVid {
			vidOfName[name] = vid
		}
		recorded := make([][2]int, len(op.Pairs)) // a fresh slice: the history may be executed again (multi-run variants)
		for i, p := range op.Pairs {
			idOf[cname(p[0])] = p[1]
			recorded[i] = [2]int{vidOfName[cname(p[0])], p[1]} // recorded by value id, which is how the trace specification names containers
		}
		op.Pairs = recorded
		var err error
		r := Res{}
		visit := func(v atree.Value) error {
			a := w.absOfValue(v)
			if a.C != "A" && a.C != "M" {
				return nil
			}
			name, ok := w.NameOfVid[a.V]
			if !ok {
				return nil
			}
			w.adopt(v, name, op.H)
			if id, ok := idOf[name]; ok {
				return w.H[name].Arr.Append(mkValue(ElemSpec{ID: id, Sz: op.E.Sz}))
			}
			return nil
		}
		if h.Kind == "A" {
			err = h.Arr.Iterate(func(v atree.Value) (bool, error) {
				r.Seq = append(r.Seq, w.absOfValue(v).V)
				if e := visit(v); e != nil {
					return false, e
				}
				return true, nil
			})
		} else {
			err = h.Map.Iterate(testutils.CompareValue, testutils.GetHashInput, func(k, v atree.Value) (bool, error) {
				r.Seq = append(r.Seq, w.absOfValue(k).V, w.absOfValue(v).V)
				if e := visit(v); e != nil {
					return false, e
				}
				return true, nil
			})
		}
		return "NIterMut", fin(err, r)
	case "n.settype":
		var err error
		var ti atree.TypeInfo = testutils.NewSimpleTypeInfo(uint64(op.Ti))
		if op.Ti >= 100 {
			// composite types: inlined maps of a composite type use the compact encoding (keys hoisted per type + key set)
			ti = compTypeInfo{uint64(op.Ti)}
		}
		if h.Kind == "A" {
			err = h.Arr.SetType(ti)
		} else {
			err = h.Map.SetType(ti)
		}
		return "NSetType", fin(err, Res{})
	}
	panic("unknown nested op " + op.Op)
}

func keepName(op *Op) string {
	if op.E.New == "" {
		return op.New
	}
	return op.New + "k"
}
