package main

import (
	"encoding/json"
	"fmt"

	"github.com/onflow/atree"
	testutils "github.com/onflow/atree/test_utils"
)

// Op is one public-API call (or storage event) in a history.
type Op struct {
	Op   string   `json:"op"`
	H    string   `json:"h"`    // handle acted on
	I    int      `json:"i"`    // index / range start
	J    int      `json:"j"`    // range end
	E    ElemSpec `json:"e"`    // element / value
	K    ElemSpec `json:"k"`    // key (maps)
	Ti   int      `json:"ti"`   // type info value
	Mode string   `json:"mode"` // commit kind
	W    int      `json:"wk"`   // workers
	Fail []int    `json:"fail"` // failing ledger write calls (1-based within the op)
	New  string   `json:"new"`  // name for a handle created by the op
}

type Res struct {
	Class string `json:"class"`
	Cat   string `json:"cat"`
	Found bool   `json:"found"` // maps: key was present
	Kv    int    `json:"kv"`    // maps: id of the returned key (remove)
	V     int    `json:"v"`     // returned element id (0 = none)
	Vc    string `json:"vc"`    // class of the returned element
	N     int    `json:"n"`     // Count() of the handle after the call
	Seq   []int  `json:"seq"`   // sequence results (pop, iterate, range)
	Rid   int    `json:"rid"`   // canonical root identifier of the handle
}

type RecCfg struct {
	T         int `json:"T"`
	MaxArr    int `json:"maxarr"`
	MaxMapEl  int `json:"maxmapel"`
	MaxMapKey int `json:"maxmapkey"`
}

type Rec struct {
	T     int       `json:"t"`
	Ev    string    `json:"ev"`
	H     string    `json:"h"`
	I     int       `json:"i"`
	J     int       `json:"j"`
	E     ElemSpec  `json:"e"`
	K     ElemSpec  `json:"k"`
	Kd    []int     `json:"kd"` // digest vector of the key (maps)
	Ti    int       `json:"ti"`
	Res   Res       `json:"res"`
	Roots []RootObs `json:"roots"`
	St    StoreObs  `json:"st"`
	Cfg   RecCfg    `json:"cfg"`
	Mode  string    `json:"mode"`  // commit kind
	Calls []CallObs `json:"calls"` // ledger write calls issued by this event, in order
	Cold  []RootObs `json:"cold"`  // commit events: the roots as reconstructed by a brand-new storage from the registers alone
	Regs  []RegObs  `json:"regs"`  // commit / run-end events: every register (canonical id, short hash, length)
	Known bool      `json:"known"` // Load: cold holds the roots observed from the registers at the last successful commit
}

type CallObs struct {
	Op    string `json:"op"`
	ID    int    `json:"id"`
	Owner int    `json:"owner"`
	Index int    `json:"index"`
	OK    bool   `json:"ok"`
}

type RegObs struct {
	Key string `json:"key"` // raw identifier (stable across runs)
	ID  int    `json:"id"`
	Sum string `json:"sum"`
	Len int    `json:"len"`
}

func (w *World) cfg() RecCfg {
	return RecCfg{T: int(w.T), MaxArr: int(w.Th.MaxInlineArrayElt), MaxMapEl: int(w.Th.MaxInlineMapElt), MaxMapKey: int(w.Th.MaxInlineMapKey)}
}

// Stats accumulated over all recorded observations of a run (vacuity indicators for the evidence).
type RunStats struct {
	MaxDepth  int            `json:"max_depth"`
	MaxSlabs  int            `json:"max_slabs"`
	MaxCount  int            `json:"max_count"`
	Events    map[string]int `json:"events"`
	Rejected  map[string]int `json:"rejected"`
	ElemClass map[string]int `json:"elem_classes"`
}

var runStats = RunStats{Events: map[string]int{}, Rejected: map[string]int{}, ElemClass: map[string]int{}}

func nodeDepth(n *Node) int {
	d := 0
	for _, c := range n.C {
		if x := nodeDepth(c); x > d {
			d = x
		}
	}
	return d + 1
}

func (w *World) rec(t int, ev string, op Op, res Res) Rec {
	roots, st := w.Observe()
	runStats.Events[ev]++
	if res.Class != "ok" {
		runStats.Rejected[ev+":"+res.Class]++
	}
	for _, r := range roots {
		if d := nodeDepth(r.F[0]); d > runStats.MaxDepth {
			runStats.MaxDepth = d
		}
		if r.N > runStats.MaxCount {
			runStats.MaxCount = r.N
		}
	}
	if len(st.Reach) > runStats.MaxSlabs {
		runStats.MaxSlabs = len(st.Reach)
	}
	if res.Seq == nil {
		res.Seq = []int{}
	}
	kd := []int{}
	if h, ok := w.H[op.H]; ok && h.Kind == "M" && h.Dig != nil && op.K.ID != 0 {
		v := h.Dig.Vec(op.K.ID)
		kd = []int{int(v[0]), int(v[1]), int(v[2]), int(v[3])}
	}
	r := Rec{T: t, Ev: ev, H: op.H, I: op.I, J: op.J, E: op.E, K: op.K, Kd: kd, Ti: op.Ti, Res: res, Roots: roots, St: st, Cfg: w.cfg(),
		Mode: op.Mode, Calls: []CallObs{}, Cold: []RootObs{}, Regs: []RegObs{}}
	if w.lastCalls != nil {
		r.Calls = w.lastCalls
		w.lastCalls = nil
	}
	if ev == "Commit" || ev == "RunEnd" {
		r.Regs = w.RegObs()
		if res.Class == "ok" {
			r.Cold = w.ColdObserve()
			w.committedRoots, w.commitKnown = r.Cold, true
		} else {
			w.commitKnown = false
		}
	}
	if ev == "Load" && w.commitKnown {
		r.Cold, r.Known = w.committedRoots, true
	}
	return r
}

func resOf(err error) Res {
	ei := classify(err)
	return Res{Class: ei.Class, Cat: ei.Cat, Seq: []int{}}
}

// tokenOfStorable resolves a storable handed back by the library to (element id, class).
func (w *World) tokenOfStorable(st atree.Storable) (int, string) {
	if st == nil {
		return 0, ""
	}
	p := w.newProjector()
	e := p.elemOf(st)
	return e.V, e.C
}

// dispose releases everything a handed-back storable owns (the caller's duty in C09).
func (w *World) dispose(st atree.Storable) {
	if st == nil {
		return
	}
	for {
		if ss, ok := st.(testutils.SomeStorable); ok {
			st = ss.Storable
			continue
		}
		break
	}
	id, ok := st.(atree.SlabIDStorable)
	if !ok {
		return
	}
	w.disposeSlab(atree.SlabID(id))
}

func (w *World) disposeSlab(id atree.SlabID) {
	s, found, err := w.St.Retrieve(id)
	must(err)
	if !found {
		return
	}
	switch s.(type) {
	case *atree.StorableSlab:
		must(w.St.Remove(id))
		return
	}
	v, err := s.StoredValue(w.St)
	must(err)
	switch c := v.(type) {
	case *atree.Array:
		must(c.PopIterate(func(st atree.Storable) { w.dispose(st) }))
		must(w.St.Remove(id))
	case *atree.OrderedMap:
		must(c.PopIterate(func(k, v atree.Storable) { w.dispose(k); w.dispose(v) }))
		must(w.St.Remove(id))
	}
}

func (w *World) handle(name string) *Handle {
	h, ok := w.H[name]
	if !ok {
		panic("unknown handle " + name)
	}
	return h
}

// idx translates a model index: -(k+1) stands for 2^32 + k (TLC integers are 32-bit).
func idx(i int) uint64 {
	if i < 0 {
		return (1 << 32) + uint64(-i-1)
	}
	return uint64(i)
}

// Exec runs one operation; returns the event name and result.
func (w *World) Exec(op Op) (string, Res) {
	switch op.Op {
	case "new_array":
		a, err := atree.NewArray(w.St, w.Addr, testutils.NewSimpleTypeInfo(uint64(op.Ti)))
		r := resOf(err)
		if err == nil {
			w.H[op.New] = &Handle{Name: op.New, Kind: "A", Arr: a}
			w.Roots = append(w.Roots, op.New)
			r.Rid = w.cid(a.SlabID())
		}
		return "NewArray", r
	case "ains":
		h := w.handle(op.H)
		err := h.Arr.Insert(idx(op.I), mkValue(op.E))
		r := resOf(err)
		r.N = int(h.Arr.Count())
		r.Rid = w.cid(h.Arr.SlabID())
		return "AInsert", r
	case "aapp":
		h := w.handle(op.H)
		err := h.Arr.Append(mkValue(op.E))
		r := resOf(err)
		r.N = int(h.Arr.Count())
		r.Rid = w.cid(h.Arr.SlabID())
		return "AAppend", r
	case "aset":
		h := w.handle(op.H)
		old, err := h.Arr.Set(idx(op.I), mkValue(op.E))
		r := resOf(err)
		if err == nil {
			r.V, r.Vc = w.tokenOfStorable(old)
			w.dispose(old)
		}
		r.N = int(h.Arr.Count())
		r.Rid = w.cid(h.Arr.SlabID())
		return "ASet", r
	case "arem":
		h := w.handle(op.H)
		old, err := h.Arr.Remove(idx(op.I))
		r := resOf(err)
		if err == nil {
			r.V, r.Vc = w.tokenOfStorable(old)
			w.dispose(old)
		}
		r.N = int(h.Arr.Count())
		r.Rid = w.cid(h.Arr.SlabID())
		return "ARemove", r
	case "aget":
		h := w.handle(op.H)
		v, err := h.Arr.Get(idx(op.I))
		r := resOf(err)
		if err == nil {
			a := w.absOfValue(v)
			r.V, r.Vc = a.V, a.C
		}
		r.N = int(h.Arr.Count())
		r.Rid = w.cid(h.Arr.SlabID())
		return "AGet", r
	case "apop":
		h := w.handle(op.H)
		var popped []atree.Storable
		err := h.Arr.PopIterate(func(st atree.Storable) { popped = append(popped, st) })
		r := resOf(err)
		for _, st := range popped {
			v, _ := w.tokenOfStorable(st)
			r.Seq = append(r.Seq, v)
		}
		for _, st := range popped {
			w.dispose(st)
		}
		r.N = int(h.Arr.Count())
		r.Rid = w.cid(h.Arr.SlabID())
		return "APop", r
	case "asettype":
		h := w.handle(op.H)
		err := h.Arr.SetType(testutils.NewSimpleTypeInfo(uint64(op.Ti)))
		r := resOf(err)
		r.N = int(h.Arr.Count())
		r.Rid = w.cid(h.Arr.SlabID())
		return "ASetType", r
	case "commit":
		start := len(w.Ledger.Calls)
		w.Ledger.SetFaultPlan(op.Fail...)
		wk := op.W
		if wk <= 0 {
			wk = w.Workers
		}
		var err error
		if op.Mode == "nondet" {
			err = w.St.NondeterministicFastCommit(wk)
		} else {
			err = w.St.FastCommit(wk)
		}
		w.Ledger.SetFaultPlan()
		w.lastCalls = []CallObs{}
		for _, c := range w.Ledger.Calls[start:] {
			w.lastCalls = append(w.lastCalls, CallObs{Op: c.Op, ID: w.cid(c.ID), Owner: int(c.ID.AddressAsUint64()), Index: int(c.ID.IndexAsUint64()), OK: c.OK})
		}
		if err == nil {
			w.pendingColdRefresh = true
		} else {
			w.commitKnown = false
		}
		return "Commit", resOf(err)
	case "dropcache":
		w.St.DropCache()
		return "DropCache", resOf(nil)
	case "crash":
		// abandon the in-memory storage; open a brand-new one over the ledger and reopen every root by its identifier
		return "Crash", w.Reopen()
	case "new_map":
		dig := &TableDigesterBuilder{Table: w.DigTable, Default: w.DigDefault}
		m, err := atree.NewMap(w.St, w.Addr, dig, testutils.NewSimpleTypeInfo(uint64(op.Ti)))
		r := resOf(err)
		if err == nil {
			w.H[op.New] = &Handle{Name: op.New, Kind: "M", Map: m, Dig: dig}
			w.Roots = append(w.Roots, op.New)
			r.Rid = w.cid(m.SlabID())
		}
		return "NewMap", r
	case "mset":
		h := w.handle(op.H)
		old, err := h.Map.Set(testutils.CompareValue, testutils.GetHashInput, mkValue(op.K), mkValue(op.E))
		r := resOf(err)
		if err == nil && old != nil {
			r.Found = true
			r.V, r.Vc = w.tokenOfStorable(old)
			w.dispose(old)
		}
		r.N = int(h.Map.Count())
		r.Rid = w.cid(h.Map.SlabID())
		return "MSet", r
	case "mget":
		h := w.handle(op.H)
		v, err := h.Map.Get(testutils.CompareValue, testutils.GetHashInput, mkValue(op.K))
		r := resOf(err)
		if err == nil {
			a := w.absOfValue(v)
			r.Found = true
			r.V, r.Vc = a.V, a.C
		}
		r.N = int(h.Map.Count())
		r.Rid = w.cid(h.Map.SlabID())
		return "MGet", r
	case "mhas":
		h := w.handle(op.H)
		ok, err := h.Map.Has(testutils.CompareValue, testutils.GetHashInput, mkValue(op.K))
		r := resOf(err)
		r.Found = ok
		r.N = int(h.Map.Count())
		r.Rid = w.cid(h.Map.SlabID())
		return "MHas", r
	case "mrem":
		h := w.handle(op.H)
		k, v, err := h.Map.Remove(testutils.CompareValue, testutils.GetHashInput, mkValue(op.K))
		r := resOf(err)
		if err == nil {
			r.Found = true
			r.Kv, _ = w.tokenOfStorable(k)
			r.V, r.Vc = w.tokenOfStorable(v)
			w.dispose(k)
			w.dispose(v)
		}
		r.N = int(h.Map.Count())
		r.Rid = w.cid(h.Map.SlabID())
		return "MRemove", r
	case "mpop":
		h := w.handle(op.H)
		var ks, vs []atree.Storable
		err := h.Map.PopIterate(func(k, v atree.Storable) { ks = append(ks, k); vs = append(vs, v) })
		r := resOf(err)
		for i := range ks {
			kid, _ := w.tokenOfStorable(ks[i])
			vid, _ := w.tokenOfStorable(vs[i])
			r.Seq = append(r.Seq, kid, vid)
		}
		for i := range ks {
			w.dispose(ks[i])
			w.dispose(vs[i])
		}
		r.N = int(h.Map.Count())
		r.Rid = w.cid(h.Map.SlabID())
		return "MPop", r
	case "msettype":
		h := w.handle(op.H)
		err := h.Map.SetType(testutils.NewSimpleTypeInfo(uint64(op.Ti)))
		r := resOf(err)
		r.N = int(h.Map.Count())
		r.Rid = w.cid(h.Map.SlabID())
		return "MSetType", r
	}
	panic("unknown op " + op.Op)
}

// parseTupleOp converts TLC's compact tuple form of an op into an Op.
func parseTupleOp(raw json.RawMessage, handle string) Op {
	var t []any
	must(json.Unmarshal(raw, &t))
	name := t[0].(string)
	num := func(k int) int { return int(t[k].(float64)) }
	switch name {
	case "ins":
		return Op{Op: "ains", H: handle, I: num(1), E: ElemSpec{ID: num(2), Sz: num(3)}}
	case "set":
		return Op{Op: "aset", H: handle, I: num(1), E: ElemSpec{ID: num(2), Sz: num(3)}}
	case "rem":
		return Op{Op: "arem", H: handle, I: num(1)}
	case "get":
		return Op{Op: "aget", H: handle, I: num(1)}
	case "pop":
		return Op{Op: "apop", H: handle}
	case "settype":
		return Op{Op: "asettype", H: handle, Ti: num(1)}
	case "mset": // k, ksz, vid, vsz
		return Op{Op: "mset", H: handle, K: ElemSpec{ID: num(1), Sz: num(2)}, E: ElemSpec{ID: num(3), Sz: num(4)}}
	case "mrem":
		return Op{Op: "mrem", H: handle, K: ElemSpec{ID: num(1), Sz: num(2)}}
	case "mget":
		return Op{Op: "mget", H: handle, K: ElemSpec{ID: num(1), Sz: num(2)}}
	case "mhas":
		return Op{Op: "mhas", H: handle, K: ElemSpec{ID: num(1), Sz: num(2)}}
	case "mpop":
		return Op{Op: "mpop", H: handle}
	case "msettype":
		return Op{Op: "msettype", H: handle, Ti: num(1)}
	case "commit": // mode, workers, failing call position (0 = none)
		op := Op{Op: "commit", Mode: t[1].(string), W: num(2)}
		if len(t) > 3 && num(3) > 0 {
			op.Fail = []int{num(3)}
		}
		return op
	case "dropcache":
		return Op{Op: "dropcache"}
	case "crash":
		return Op{Op: "crash"}
	}
	panic(fmt.Sprintf("unknown tuple op %v", t))
}

// ExecSilent runs an operation without recording it, keeping the committed snapshot up to date.
func (w *World) ExecSilent(op Op) {
	ev, res := w.Exec(op)
	w.lastCalls = nil
	if ev == "Commit" && res.Class == "ok" {
		w.committedRoots, w.commitKnown = w.ColdObserve(), true
	}
}
