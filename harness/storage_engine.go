package main

import (
	"bytes"
	"encoding/json"
	"flag"
	"fmt"
	"math/rand"

	"github.com/onflow/atree"
	testutils "github.com/onflow/atree/test_utils"
)

// Storage engine: executes API-level histories over a small universe of identifiers and
// slab versions against a real PersistentSlabStorage and records, per event, the complete
// observable state (write set, read cache, ledger) for validation by SlabStorageTrace.tla.

type stCfg struct {
	NIds  int   `json:"nids"`
	Owner []int `json:"owner"`
	Index []int `json:"index"`
	NVers int   `json:"nvers"`
}

type stOp struct {
	Op   string `json:"op"`
	ID   int    `json:"id"`
	V    int    `json:"v"`
	C    int    `json:"c"`
	S    []int  `json:"s"`
	Mode string `json:"mode"`
	Fail int    `json:"fail"`
	W    int    `json:"w,omitempty"` // workers (0 -> default)
}

type stRet struct {
	Op  string `json:"op"`
	ID  int    `json:"id"`
	Val int    `json:"val"`
	OK  bool   `json:"ok"`
	Err string `json:"err"`
	N   int    `json:"n"`
	M   int    `json:"m"`
	Sz  int    `json:"sz"`
	It  int    `json:"it"`  // bit mask of the identifiers yielded by SlabIterator
	Cnt int    `json:"cnt"` // Count()
}

type stState struct {
	Base   []int `json:"base"`
	Cache  []int `json:"cache"`
	Deltas []int `json:"deltas"`
}

type stRec struct {
	T    int     `json:"t"`
	Ev   string  `json:"ev"`
	ID   int     `json:"id"`
	V    int     `json:"v"`
	C    int     `json:"c"`
	S    []int   `json:"s"`
	Mode string  `json:"mode"`
	OK   bool    `json:"ok"`
	Ret  stRet   `json:"ret"`
	St   stState `json:"st"`
	Vsz  []int   `json:"vsz"`
	Own  []int   `json:"own"`
	Idx  []int   `json:"idx"`
}

type stWorld struct {
	cfg     stCfg
	ids     []atree.SlabID
	ledger  *LedgerSim
	st      *atree.PersistentSlabStorage
	tmpl    [][]byte // encoded slab per version (index v-1)
	vsz     []int
	workers int
}

func newStWorld(cfg stCfg) *stWorld {
	w := &stWorld{cfg: cfg, workers: 3}
	for i := 0; i < cfg.NIds; i++ {
		w.ids = append(w.ids, mkSlabID(uint64(cfg.Owner[i]), uint64(cfg.Index[i])))
	}
	w.ledger = NewLedgerSim()
	w.st = newStorage(w.ledger)
	if t, ok := stTemplates[cfg.NVers]; ok {
		w.tmpl, w.vsz = t.tmpl, t.vsz
		return w
	}
	// template registers: a root array data slab holding the version number
	for v := 1; v <= cfg.NVers; v++ {
		bs := atree.NewBasicSlabStorage(encMode(), decMode(), testutils.DecodeStorable, decodeTypeInfo)
		a, err := atree.NewArray(bs, atree.Address{1}, testutils.NewSimpleTypeInfo(42))
		must(err)
		for k := 0; k < v; k++ { // version v: v elements, so sizes differ per version
			must(a.Append(testutils.Uint64Value(uint64(1000 + v))))
		}
		slab, ok, err := bs.Retrieve(a.SlabID())
		must(err)
		if !ok {
			panic("template slab missing")
		}
		data, err := atree.EncodeSlab(slab, encMode())
		must(err)
		w.tmpl = append(w.tmpl, data)
		w.vsz = append(w.vsz, int(slab.ByteSize()))
	}
	stTemplates[cfg.NVers] = stTmpl{w.tmpl, w.vsz}
	return w
}

type stTmpl struct {
	tmpl [][]byte
	vsz  []int
}

var stTemplates = map[int]stTmpl{}

func (w *stWorld) mkSlab(i, v int) atree.Slab {
	s, err := atree.DecodeSlab(w.ids[i-1], w.tmpl[v-1], decMode(), testutils.DecodeStorable, decodeTypeInfo)
	must(err)
	return s
}

// versionOf reads the version back from a slab (number of elements of the array slab).
func versionOf(s atree.Slab) int {
	if s == nil {
		return -1
	}
	return len(s.ChildStorables())
}

// versionOfBytes maps a register to its version; bytes that are not exactly the encoding of a
// version are reported as 100+v (never a legal model value), so that "byte-identical" is judged.
func (w *stWorld) versionOfBytes(b []byte) int {
	for v, t := range w.tmpl {
		if bytes.Equal(t, b) {
			return v + 1
		}
	}
	s, err := atree.DecodeSlab(w.ids[0], b, decMode(), testutils.DecodeStorable, decodeTypeInfo)
	if err != nil {
		return 999
	}
	return 100 + len(s.ChildStorables())
}

func (w *stWorld) state() stState {
	n := w.cfg.NIds
	st := stState{Base: make([]int, n), Cache: make([]int, n), Deltas: make([]int, n)}
	deltas := atree.VerifDeltas(w.st)
	cache := atree.VerifCache(w.st)
	for i, id := range w.ids {
		if b, ok := w.ledger.Regs[id]; ok {
			st.Base[i] = w.versionOfBytes(b)
		}
		if s, ok := cache[id]; ok {
			st.Cache[i] = versionOf(s)
		}
		if s, ok := deltas[id]; ok {
			st.Deltas[i] = versionOf(s)
		}
	}
	// entries under identifiers outside the universe would be a harness bug
	for id := range deltas {
		if w.idx(id) == 0 {
			panic("foreign id in deltas " + id.String())
		}
	}
	return st
}

func (w *stWorld) idx(id atree.SlabID) int {
	for i, x := range w.ids {
		if x == id {
			return i + 1
		}
	}
	return 0
}

func slabVal(s atree.Slab, found bool) int {
	if !found || s == nil {
		return 0
	}
	return versionOf(s)
}

// exec runs one API-level op; when rec != nil it appends the trace records.
func (w *stWorld) exec(op stOp, t int, rec *[]stRec) {
	emit := func(ev string, ok bool, ret stRet, st stState, id int) {
		if rec == nil {
			return
		}
		s := op.S
		if s == nil {
			s = []int{}
		}
		*rec = append(*rec, stRec{T: t, Ev: ev, ID: id, V: op.V, C: op.C, S: s, Mode: op.Mode, OK: ok, Ret: ret, St: st, Vsz: w.vsz, Own: []int{}, Idx: []int{}})
	}
	switch op.Op {
	case "storeundef", "removeundef", "dropdeltas", "dropcache", "recreate", "preload", "observe", "commit":
		op.ID, op.V = 0, 0
	}
	ret := stRet{Op: op.Op, ID: op.ID, OK: true}
	switch op.Op {
	case "store":
		err := w.st.Store(w.ids[op.ID-1], w.mkSlab(op.ID, op.V))
		ret.Val = op.V
		ret.OK = err == nil
		emit("Store", true, ret, w.state(), op.ID)
	case "remove":
		err := w.st.Remove(w.ids[op.ID-1])
		ret.OK = err == nil
		emit("Remove", true, ret, w.state(), op.ID)
	case "storeundef":
		err := w.st.Store(atree.SlabIDUndefined, w.mkSlab(1, 1))
		ret.OK = err == nil
		ret.Err = classify(err).Class
		emit("StoreUndefined", true, ret, w.state(), 0)
	case "removeundef":
		err := w.st.Remove(atree.SlabIDUndefined)
		ret.OK = err == nil
		ret.Err = classify(err).Class
		emit("RemoveUndefined", true, ret, w.state(), 0)
	case "retrieve":
		s, found, err := w.st.Retrieve(w.ids[op.ID-1])
		ret.OK = err == nil
		ret.Val = slabVal(s, found)
		if found != (s != nil) {
			ret.Err = "found-flag-mismatch"
		}
		emit("Retrieve", true, ret, w.state(), op.ID)
	case "retrievefail":
		w.ledger.SetReadFaultPlan(1)
		s, found, err := w.st.Retrieve(w.ids[op.ID-1])
		w.ledger.SetReadFaultPlan()
		ret.Op = "retrieve"
		ret.OK = err == nil
		if err != nil {
			ret.Err = classify(err).Cat
		} else {
			ret.Val = slabVal(s, found)
		}
		emit("RetrieveFail", true, ret, w.state(), op.ID)
	case "ifloaded":
		s := w.st.RetrieveIfLoaded(w.ids[op.ID-1])
		ret.Val = slabVal(s, s != nil)
		emit("RetrieveIfLoaded", true, ret, w.state(), op.ID)
	case "ignoring":
		s, found, err := w.st.RetrieveIgnoringDeltas(w.ids[op.ID-1], op.C == 1)
		ret.OK = err == nil
		ret.Val = slabVal(s, found)
		emit("RetrieveIgnoringDeltas", true, ret, w.state(), op.ID)
	case "dropdeltas":
		w.st.DropDeltas()
		emit("DropDeltas", true, ret, w.state(), 0)
	case "dropcache":
		w.st.DropCache()
		emit("DropCache", true, ret, w.state(), 0)
	case "recreate":
		w.st = newStorage(w.ledger)
		emit("Recreate", true, ret, w.state(), 0)
	case "preload":
		var ids []atree.SlabID
		for _, i := range op.S {
			ids = append(ids, w.ids[i-1])
		}
		if op.C == 1 {
			// pad with identifiers that exist in no layer so that the parallel path runs
			for k := 0; k < 11; k++ {
				ids = append(ids, mkSlabID(77, uint64(1000+k)))
			}
		}
		err := w.st.BatchPreload(ids, w.workersFor(op))
		ret.OK = err == nil
		emit("BatchPreload", true, ret, w.state(), 0)
	case "observe":
		ret.N = int(w.st.Deltas())
		ret.M = int(w.st.DeltasWithoutTempAddresses())
		ret.Sz = int(w.st.DeltasSizeWithoutTempAddresses())
		ret.Cnt = w.st.Count()
		if it, err := w.st.SlabIterator(); err == nil {
			for {
				id, s := it()
				if s == nil {
					break
				}
				ret.It |= 1 << (w.idx(id) - 1)
			}
		} else {
			ret.It = -1
		}
		emit("Observe", true, ret, w.state(), 0)
	case "unsaved":
		var a atree.Address
		a[7] = byte(op.ID)
		if w.st.HasUnsavedChanges(a) {
			ret.Val = 1
		}
		emit("ObserveOwner", true, ret, w.state(), op.ID)
	case "commit":
		w.commit(op, t, rec)
	default:
		panic("unknown op " + op.Op)
	}
}

func (w *stWorld) workersFor(op stOp) int {
	if op.W > 0 {
		return op.W
	}
	return w.workers
}

func (w *stWorld) commit(op stOp, t int, rec *[]stRec) {
	pre := w.state()
	start := len(w.ledger.Calls)
	if op.Fail > 0 {
		w.ledger.SetFaultPlan(op.Fail)
	} else {
		w.ledger.SetFaultPlan()
	}
	w.ledger.OnCall = func(string, atree.SlabID) any { return w.state() }
	var err error
	func() {
		// a panic inside the library while committing is a behaviour of the real code: recorded as a commit that ended
		// with an uncategorised error (the trace specification demands an external error), not a harness failure
		defer func() {
			if e := recover(); e != nil {
				err = fmt.Errorf("panic in commit: %v", e)
			}
		}()
		if op.Mode == "det" {
			err = w.st.FastCommit(w.workersFor(op))
		} else {
			err = w.st.NondeterministicFastCommit(w.workersFor(op))
		}
	}()
	w.ledger.OnCall = nil
	w.ledger.SetFaultPlan()
	if rec == nil {
		return
	}
	post := w.state()
	calls := w.ledger.Calls[start:]
	s := []int{}
	*rec = append(*rec, stRec{T: t, Ev: "CommitBegin", Mode: op.Mode, S: s, OK: true,
		Ret: stRet{Op: "commitbegin", OK: true}, St: pre, Vsz: w.vsz, Own: []int{}, Idx: []int{}})
	for j, c := range calls {
		// state after call j = snapshot taken at call j+1, or the state after the commit returned
		var after stState
		if j+1 < len(calls) {
			after = calls[j+1].Snap.(stState)
		} else {
			after = post
		}
		id := w.idx(c.ID)
		if c.OK {
			*rec = append(*rec, stRec{T: t, Ev: "Call", ID: id, Mode: op.Mode, S: s, OK: true,
				Ret: stRet{Op: "call", ID: id, Val: 1, OK: true}, St: after, Vsz: w.vsz, Own: []int{}, Idx: []int{}})
		} else {
			ei := classify(err)
			*rec = append(*rec, stRec{T: t, Ev: "CallFail", ID: id, Mode: op.Mode, S: s, OK: false,
				Ret: stRet{Op: "commitend", ID: id, OK: err == nil, Err: ei.Cat}, St: after, Vsz: w.vsz, Own: []int{}, Idx: []int{}})
			return
		}
	}
	ei := classify(err)
	e := ""
	if err != nil {
		e = ei.Cat
	}
	*rec = append(*rec, stRec{T: t, Ev: "CommitEnd", Mode: op.Mode, S: s, OK: err == nil,
		Ret: stRet{Op: "commitend", OK: err == nil, Err: e}, St: post, Vsz: w.vsz, Own: []int{}, Idx: []int{}})
}

func (w *stWorld) loadRec(t int) stRec {
	return stRec{T: t, Ev: "Load", S: []int{}, OK: true, Ret: stRet{Op: "load", OK: true}, St: w.state(), Vsz: w.vsz,
		Own: w.cfg.Owner, Idx: w.cfg.Index}
}

// cmdStorageRun: input = one JSON history (array of ops) per line, first line = cfg.
// mode "edge": replay all but the last op silently, record Load + last op.
// mode "full": record every op.
func cmdStorageRun(args []string) {
	fs := flag.NewFlagSet("storage-run", flag.ExitOnError)
	in := fs.String("in", "", "histories ndjson (first line cfg)")
	out := fs.String("out", "", "trace ndjson")
	mode := fs.String("mode", "edge", "edge|full")
	workers := fs.Int("workers", 3, "commit workers")
	fs.Parse(args)
	var cfg stCfg
	first := true
	wr := newNDWriter(*out)
	t := 0
	nops := 0
	readLines(*in, func(line []byte) {
		if first {
			first = false
			var hdr struct {
				Cfg stCfg `json:"cfg"`
			}
			must(json.Unmarshal(line, &hdr))
			cfg = hdr.Cfg
			return
		}
		var ops []stOp
		must(json.Unmarshal(line, &ops))
		t++
		w := newStWorld(cfg)
		w.workers = *workers
		var recs []stRec
		if *mode == "edge" {
			for _, op := range ops[:len(ops)-1] {
				w.exec(op, t, nil)
			}
			recs = append(recs, w.loadRec(t))
			w.exec(ops[len(ops)-1], t, &recs)
		} else {
			recs = append(recs, w.loadRec(t))
			for _, op := range ops {
				w.exec(op, t, &recs)
			}
		}
		nops += len(ops)
		for _, r := range recs {
			wr.Write(r)
		}
	})
	wr.Close()
	fmt.Printf("{\"histories\":%d,\"ops\":%d,\"records\":%d}\n", t, nops, wr.n)
}

// cmdStorageRandom: seeded random histories over a larger universe (driver for regimes the
// bounded model does not enumerate); every op recorded.
func cmdStorageRandom(args []string) {
	fs := flag.NewFlagSet("storage-random", flag.ExitOnError)
	out := fs.String("out", "", "trace ndjson")
	seed := fs.Int64("seed", 1, "seed")
	n := fs.Int("n", 20, "histories")
	length := fs.Int("len", 60, "ops per history")
	nids := fs.Int("nids", 6, "identifiers")
	fs.Parse(args)
	rng := rand.New(rand.NewSource(*seed))
	cfg := stCfg{NIds: *nids, NVers: 3}
	for i := 1; i <= *nids; i++ {
		switch {
		case i == *nids:
			cfg.Owner = append(cfg.Owner, 0)
			cfg.Index = append(cfg.Index, 1)
		case i <= 2:
			cfg.Owner = append(cfg.Owner, 1)
			cfg.Index = append(cfg.Index, i)
		default:
			cfg.Owner = append(cfg.Owner, 2+(i%2))
			cfg.Index = append(cfg.Index, i)
		}
	}
	wr := newNDWriter(*out)
	hdr, _ := json.Marshal(map[string]any{"cfg": cfg})
	_ = hdr
	nops := 0
	for t := 1; t <= *n; t++ {
		w := newStWorld(cfg)
		w.workers = 1 + rng.Intn(7)
		recs := []stRec{w.loadRec(t)}
		for k := 0; k < *length; k++ {
			op := stOp{ID: 1 + rng.Intn(cfg.NIds), V: 1 + rng.Intn(cfg.NVers)}
			switch r := rng.Intn(100); {
			case r < 25:
				op.Op = "store"
			case r < 35:
				op.Op = "remove"
			case r < 45:
				op.Op = "retrieve"
			case r < 48:
				op.Op = "retrievefail"
			case r < 53:
				op.Op = "ifloaded"
			case r < 60:
				op.Op = "ignoring"
				op.C = rng.Intn(2)
			case r < 62:
				op.Op = "dropdeltas"
			case r < 66:
				op.Op = "dropcache"
			case r < 68:
				op.Op = "recreate"
			case r < 74:
				op.Op = "preload"
				op.C = rng.Intn(2)
				for i := 1; i <= cfg.NIds; i++ {
					if rng.Intn(2) == 0 {
						op.S = append(op.S, i)
					}
				}
			case r < 78:
				op.Op = "observe"
			case r < 81:
				op.Op = "unsaved"
				op.ID = cfg.Owner[rng.Intn(cfg.NIds)]
			case r < 82:
				op.Op = "storeundef"
			case r < 83:
				op.Op = "removeundef"
			default:
				op.Op = "commit"
				op.Mode = []string{"det", "nondet"}[rng.Intn(2)]
				if rng.Intn(3) == 0 {
					op.Fail = 1 + rng.Intn(4)
				}
				op.W = 1 + rng.Intn(8)
			}
			w.exec(op, t, &recs)
			nops++
		}
		for _, r := range recs {
			wr.Write(r)
		}
	}
	wr.Close()
	cj, _ := json.Marshal(cfg)
	fmt.Printf("{\"histories\":%d,\"ops\":%d,\"records\":%d,\"cfg\":%s}\n", *n, nops, wr.n, cj)
}
