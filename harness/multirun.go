package main

import (
	"encoding/json"
	"flag"
	"fmt"
	"math/rand"
	"sort"
	"strings"
)

// multirun: executes every history under several schedules of {commit, drop cache, crash+reopen}
// (C08), worker counts and commit kinds (C04, C16), injected commit faults with retries (C14), and
// logs one summary record per run: per-operation results, final content, final registers.
// MultiRunTrace.tla accepts iff all runs of one history agree.

type Variant struct {
	Name    string `json:"name"`
	Sched   string `json:"sched"`        // "end" | "every" | "random" | "reopen" | "drop"
	Mode    string `json:"mode"`         // "det" | "nondet"
	Workers int    `json:"workers"`      // commit workers
	Faults  int    `json:"faults"`       // max injected failing ledger calls per commit (each commit retried until success)
	Warm    bool   `json:"warm"`         // run a throw-away workload first so that pooled objects are reused
	SkipRej bool   `json:"skiprejected"` // leave out the requests that a first pass saw rejected (C18)
	// nested histories that carry the model's own persistence events (commit, cache drop - handles retired as the model says):
	// "" (run them as they are) | "drops" (leave out the cache drops) | "all" (leave out commits and drops: one commit at the
	// end) | "reopen" (every cache drop becomes an abandon-and-reopen)
	Strip string `json:"strip"`
	KeepP bool   `json:"keeppersist"` // the history's own persistence events are kept (and treated according to Strip)
}

type RunRec struct {
	T       int      `json:"t"`
	Ev      string   `json:"ev"`
	Variant string   `json:"variant"`
	Results []string `json:"results"` // one token per operation of the history
	Abs     []string `json:"abs"`     // final content per root (flattened to one token per element)
	Regs    []string `json:"regs"`    // "key=sum" per register after the final commit
	Commits int      `json:"commits"`
	Retries int      `json:"retries"`
	Errors  []string `json:"errors"` // anything unexpected (commit did not converge, reopen failed, ...)
	Kind    string   `json:"kind"`
	Cold    []string `json:"cold"`  // final content read by a brand-new storage from the registers alone
	WarmC   []string `json:"warmc"` // content read through the live storage right after every successful commit ...
	ColdC   []string `json:"coldc"` // ... and by a brand-new storage over a copy of the ledger at the same moments
}

func resToken(ev string, r Res) string {
	return fmt.Sprintf("%s:%s:%s:%d:%d:%t:%d:%v", ev, r.Class, r.Cat, r.V, r.Kv, r.Found, r.N, r.Seq)
}

func absToken(a AbsElem) string {
	var sb strings.Builder
	fmt.Fprintf(&sb, "%s%d.%d%s", a.C, a.W, a.V, a.Ti) // kind, wrapper levels, element / value id, type info (containers)
	if len(a.Sub) > 0 {
		subs := make([]string, 0, len(a.Sub))
		for _, s := range a.Sub {
			subs = append(subs, absToken(s))
		}
		if a.C == "M" && strings.HasPrefix(a.Ti, "Ccomposite") && len(subs)%2 == 0 {
			// a map of a composite type uses, when inlined, the compact encoding shared with its same-typed siblings: a decoded one
			// keeps its key-value content but may adopt the shared seed and internal order (C07 / C08): compared as a set of pairs
			pairs := make([]string, 0, len(subs)/2)
			for i := 0; i+1 < len(subs); i += 2 {
				pairs = append(pairs, subs[i]+","+subs[i+1])
			}
			sort.Strings(pairs)
			subs = pairs
		}
		sb.WriteString("[")
		sb.WriteString(strings.Join(subs, ","))
		sb.WriteString("]")
	}
	return sb.String()
}

func (w *World) commitUntilSuccess(mode string, workers, faults int, rng *rand.Rand, rr *RunRec) {
	for attempt := 0; attempt < 50; attempt++ {
		op := Op{Op: "commit", Mode: mode, W: workers}
		if faults > 0 && attempt < 6 {
			n := 1 + rng.Intn(faults)
			for k := 0; k < n; k++ {
				op.Fail = append(op.Fail, 1+rng.Intn(8))
			}
		}
		_, res := w.Exec(op)
		w.lastCalls = nil
		rr.Commits++
		if res.Class == "ok" {
			w.coldVsWarm(rr)
			return
		}
		rr.Retries++
		if res.Cat != "external" {
			rr.Errors = append(rr.Errors, "failed commit reported category "+res.Cat)
		}
	}
	rr.Errors = append(rr.Errors, "commit did not converge after 50 retries")
}

// coldVsWarm records, at a commit point, the content as the live storage serves it and as a brand-new storage decodes it.
func (w *World) coldVsWarm(rr *RunRec) {
	roots, _ := w.Observe()
	for _, ro := range roots {
		rr.WarmC = append(rr.WarmC, "|"+ro.Ti)
		for _, a := range ro.Abs {
			rr.WarmC = append(rr.WarmC, absToken(a))
		}
	}
	func() {
		defer func() {
			if e := recover(); e != nil {
				rr.ColdC = append(rr.ColdC, fmt.Sprintf("cold read failed: %v", e))
			}
		}()
		for _, ro := range w.ColdObserve() {
			rr.ColdC = append(rr.ColdC, "|"+ro.Ti)
			for _, a := range ro.Abs {
				rr.ColdC = append(rr.ColdC, absToken(a))
			}
		}
	}()
}

func runVariant(kind string, cfg runCfg, table map[int][4]uint64, ops []Op, v Variant, t int, seed int64) RunRec {
	if v.SkipRej {
		// first pass: find the rejected requests; second pass (below) runs the history without them
		var w0 *World
		if kind == "map" {
			w0 = newMapWorld(cfg.T, cfg.Limit, table)
		} else {
			w0 = newArrayWorld(cfg.T)
		}
		var kept []Op
		for _, op := range ops {
			_, res := w0.Exec(op)
			if res.Class == "ok" {
				kept = append(kept, op)
			}
		}
		ops = kept
		v.SkipRej = false
	}
	rng := rand.New(rand.NewSource(seed))
	var w *World
	switch kind {
	case "map":
		w = newMapWorld(cfg.T, cfg.Limit, table)
	case "nested":
		w = NewWorld(uint32(cfg.T))
	default:
		w = newArrayWorld(cfg.T)
	}
	w.RawIDs = true
	rr := RunRec{T: t, Ev: "Run", Variant: v.Name, Results: []string{}, Abs: []string{}, Regs: []string{}, Errors: []string{}, Kind: kind, Cold: []string{}, WarmC: []string{}, ColdC: []string{}}
	for i, op := range ops {
		op := op
		if op.Op == "commit" || op.Op == "dropcache" || op.Op == "crash" {
			// the history's own persistence events (nested walks with Persist: the model retires handles accordingly)
			rr.Results = append(rr.Results, "P")
			switch {
			case op.Op == "commit" && v.Strip == "all", op.Op == "dropcache" && (v.Strip == "drops" || v.Strip == "all"):
				continue
			case op.Op == "dropcache" && v.Strip == "reopen":
				op.Op = "crash"
			}
			if op.Op == "commit" {
				w.commitUntilSuccess(v.Mode, v.Workers, v.Faults, rng, &rr)
				continue
			}
			if _, res := w.Exec(op); res.Class != "ok" {
				rr.Errors = append(rr.Errors, op.Op+" failed: "+res.Class+" "+res.Cat)
				break
			}
			continue
		}
		ev, res := w.ExecAny(&op)
		if kind == "nested" && (ev == "NIter" || ev == "NPop" || ev == "NIterMut") && len(res.Seq)%2 == 0 {
			if h, ok := w.H[op.H]; ok && h.Kind == "M" && strings.HasPrefix(tiString(h.Map.Type()), "Ccomposite") {
				// enumeration of a map of a composite type: a set of pairs (see absToken)
				pairs := make([][2]int, 0, len(res.Seq)/2)
				for i := 0; i+1 < len(res.Seq); i += 2 {
					pairs = append(pairs, [2]int{res.Seq[i], res.Seq[i+1]})
				}
				sort.Slice(pairs, func(a, b int) bool { return pairs[a][0] < pairs[b][0] || (pairs[a][0] == pairs[b][0] && pairs[a][1] < pairs[b][1]) })
				seq := make([]int, 0, len(res.Seq))
				for _, p := range pairs {
					seq = append(seq, p[0], p[1])
				}
				res.Seq = seq
			}
		}
		rr.Results = append(rr.Results, resToken(ev, res))
		if kind == "nested" && res.Class != "ok" {
			rr.Errors = append(rr.Errors, "request failed: "+ev+" "+res.Class)
			break
		}
		persist := false
		switch v.Sched {
		case "every":
			persist = true
		case "random", "reopen", "drop":
			persist = rng.Intn(4) == 0
		case "mixed":
			// commits and cache evictions at independent random points (an eviction may separate an operation from its commit)
			persist = rng.Intn(4) == 0
			if kind != "nested" && rng.Intn(4) == 0 {
				w.Exec(Op{Op: "dropcache"})
			}
		case "droponly":
			// evict the read cache WITHOUT committing (pending changes stay in the write set)
			if kind != "nested" && rng.Intn(3) == 0 {
				w.Exec(Op{Op: "dropcache"})
			}
		}
		if persist && i < len(ops)-1 {
			w.commitUntilSuccess(v.Mode, v.Workers, v.Faults, rng, &rr)
			sched := v.Sched
			if kind == "nested" {
				sched = "every" // reopening or dropping the cache retires child handles the history still uses: commits only
			}
			switch sched {
			case "mixed":
			case "reopen":
				if r := w.Reopen(); r.Class != "ok" {
					rr.Errors = append(rr.Errors, "reopen failed: "+r.Class)
				}
			case "drop":
				w.St.DropCache()
			case "random":
				switch rng.Intn(3) {
				case 0:
					w.St.DropCache()
				case 1:
					if r := w.Reopen(); r.Class != "ok" {
						rr.Errors = append(rr.Errors, "reopen failed: "+r.Class)
					}
				}
			}
		}
	}
	w.commitUntilSuccess(v.Mode, v.Workers, v.Faults, rng, &rr)
	roots, _ := w.Observe()
	for _, ro := range roots {
		for _, a := range ro.Abs {
			rr.Abs = append(rr.Abs, absToken(a))
		}
	}
	for _, r := range w.RegObs() {
		rr.Regs = append(rr.Regs, r.Key+"="+r.Sum)
	}
	func() {
		// freshly decoded from the ledger: must be what the cached slabs say (a decode failure is recorded, not fatal)
		defer func() {
			if e := recover(); e != nil {
				rr.Errors = append(rr.Errors, fmt.Sprintf("cold read failed: %v", e))
			}
		}()
		for _, ro := range w.ColdObserve() {
			for _, a := range ro.Abs {
				rr.Cold = append(rr.Cold, absToken(a))
			}
		}
	}()
	return rr
}

func cmdMultiRun(args []string) {
	fs := flag.NewFlagSet("multirun", flag.ExitOnError)
	in := fs.String("in", "", "histories ndjson (first line cfg)")
	out := fs.String("out", "", "trace ndjson")
	kind := fs.String("kind", "array", "array|map")
	variants := fs.String("variants", "", "JSON list of variants")
	seed := fs.Int64("seed", 1, "seed")
	fs.String("mode", "", "ignored")
	fs.Parse(args)
	var vs []Variant
	must(json.Unmarshal([]byte(*variants), &vs))
	var cfg runCfg
	first := true
	wr := newNDWriter(*out)
	t := 0
	readLines(*in, func(line []byte) {
		if first {
			first = false
			var hdr struct {
				Cfg runCfg `json:"cfg"`
			}
			hdr.Cfg.Limit = 255
			must(json.Unmarshal(line, &hdr))
			cfg = hdr.Cfg
			ledgerIndexBase = cfg.Index0
			return
		}
		var raw []json.RawMessage
		must(json.Unmarshal(line, &raw))
		t++
		var table map[int][4]uint64
		if len(raw) > 0 {
			if tb, ok := parseDigTuple(raw[0]); ok {
				table = tb
				raw = raw[1:]
			}
		}
		h := "a"
		if *kind == "map" {
			h = "m"
		}
		ops := make([]Op, 0, len(raw))
		for _, r := range raw {
			var op Op
			if *kind == "nested" {
				op = parseNestedOp(r)
			} else {
				op = parseTupleOp(r, h)
			}
			if (op.Op == "commit" || op.Op == "dropcache" || op.Op == "crash") && !(len(vs) > 0 && vs[0].KeepP) {
				continue
			}
			ops = append(ops, op)
		}
		for vi, v := range vs {
			wr.Write(runVariant(*kind, cfg, table, ops, v, t, *seed*7919+int64(t)*31+int64(vi)))
		}
	})
	wr.Close()
	fmt.Printf("{\"histories\":%d,\"records\":%d,\"variants\":%d}\n", t, wr.n, len(vs))
}
