package main

import (
	"errors"
	"flag"
	"fmt"

	"github.com/onflow/atree"
	testutils "github.com/onflow/atree/test_utils"
)

// exterr-run (C18): an error raised by a caller-supplied component (ledger read, key comparator,
// hash-input provider) at the k-th call made during a lookup must be reported as an external error.

type extRec struct {
	T      int    `json:"t"`
	Ev     string `json:"ev"`
	Kind   string `json:"kind"`   // "map" | "array"
	Op     string `json:"op"`     // lookup performed
	Inject string `json:"inject"` // "ledger" | "comparator" | "hip"
	K      int    `json:"k"`      // the k-th call of that component fails
	Fired  bool   `json:"fired"`  // the injection point was reached
	Class  string `json:"class"`
	Cat    string `json:"cat"`
	Normal string `json:"normal"` // class of the same lookup without injection
	Got    int    `json:"got"`    // enumerations: elements yielded before the call returned
	Total  int    `json:"total"`  // enumerations: elements in the container (0 for lookups)
}

var errCallback = errors.New("injected callback failure")

func cmdExtErrRun(args []string) {
	fs := flag.NewFlagSet("exterr-run", flag.ExitOnError)
	out := fs.String("out", "", "trace ndjson")
	tier := fs.String("tier", "quick", "quick|thorough")
	fs.Int64("seed", 1, "unused")
	fs.Parse(args)
	wr := newNDWriter(*out)
	t := 0
	Ts := []int{256}
	if *tier == "thorough" {
		Ts = []int{256, 512}
	}
	for _, T := range Ts {
		for _, mode := range []string{"spread", "clustered"} {
			// build and commit a map with digests from a table: spread (several slabs) or clustered (collision groups)
			w := NewWorld(uint32(T))
			w.DigDefault = func(id int) [4]uint64 {
				k := uint64(id)
				if mode == "spread" {
					return [4]uint64{(k * 37) % 101, (k * 11) % 7, k % 3, k % 2}
				}
				return [4]uint64{k % 3, (k / 3) % 2, (k / 6) % 2, (k / 12) % 2}
			}
			w.Exec(Op{Op: "new_map", New: "m", Ti: 42})
			nkeys := 30
			for k := 1; k <= nkeys; k++ {
				w.Exec(Op{Op: "mset", H: "m", K: ElemSpec{ID: k, Sz: 5}, E: ElemSpec{ID: 1000 + k, Sz: 12 + 30*(k%3)}})
			}
			w.Exec(Op{Op: "commit", Mode: "det", W: 2})
			rootID := w.H["m"].Map.SlabID()
			dig := w.H["m"].Dig
			lookups := []struct {
				name string
				key  int
			}{{"Get(present)", 7}, {"Has(present)", 19}, {"Get(absent)", 77}, {"Has(absent)", 78}, {"Remove(absent)", 79}, {"Remove(present)", 8}, {"IterateFirst", 0},
				{"Set(present)", 11}, {"Set(present@limit1)", 13}, {"Set(present@limit0)", 14}}
			for _, lk := range lookups {
				for _, inject := range []string{"ledger", "comparator", "hip"} {
					normal := ""
					for k := 0; k <= 12; k++ { // k = 0: no injection (reference)
						ledger := w.Ledger.Clone()
						st := newStorage(ledger)
						calls := 0
						fired := false
						cmp := func(s atree.SlabStorage, v atree.Value, so atree.Storable) (bool, error) {
							if inject == "comparator" {
								calls++
								// updates: the component stays broken from its k-th call on (the library may probe a collision group
								// and then look the key up again; a single transient failure may be retried away without harm)
								if k > 0 && (calls == k || (calls > k && len(lk.name) > 3 && lk.name[:3] == "Set")) {
									fired = true
									return false, errCallback
								}
							}
							return testutils.CompareValue(s, v, so)
						}
						hip := func(v atree.Value, b []byte) ([]byte, error) {
							if inject == "hip" {
								calls++
								if k > 0 && (calls == k || (calls > k && len(lk.name) > 3 && lk.name[:3] == "Set")) {
									fired = true
									return nil, errCallback
								}
							}
							return testutils.GetHashInput(v, b)
						}
						if inject == "ledger" && k > 0 {
							ledger.SetReadFaultPlan(k)
						}
						var err error
						m, oerr := atree.NewMapWithRootID(st, rootID, dig)
						if oerr != nil {
							err = oerr
						} else {
							key := mkValue(ElemSpec{ID: lk.key, Sz: 5})
							switch lk.name {
							case "Get(present)", "Get(absent)":
								_, err = m.Get(cmp, hip, key)
							case "Has(present)", "Has(absent)":
								_, err = m.Has(cmp, hip, key)
							case "Remove(absent)", "Remove(present)":
								_, _, err = m.Remove(cmp, hip, key)
							case "Set(present)", "Set(present@limit1)", "Set(present@limit0)":
								// an UPDATE of an existing key, also when its first-level digest already sits at the collision limit
								// (the library probes the group for the key before refusing): a failing callback is external
								switch lk.name {
								case "Set(present@limit1)":
									atree.VerifSetMaxCollisionLimitPerDigest(1)
								case "Set(present@limit0)":
									atree.VerifSetMaxCollisionLimitPerDigest(0)
								}
								_, err = m.Set(cmp, hip, key, mkValue(ElemSpec{ID: 5000 + lk.key, Sz: 12}))
								atree.VerifSetMaxCollisionLimitPerDigest(255)
							case "IterateFirst":
								var it atree.MapIterator
								it, err = m.ReadOnlyIterator()
								if err == nil {
									_, _, err = it.Next()
								}
							}
						}
						if inject == "ledger" && k > 0 {
							fired = ledger.Reads-0 >= k && errors.Is(err, errInjected)
							if !fired {
								// the k-th read was never issued, or the lookup did not need it
								fired = ledger.Reads >= k
							}
						}
						ei := classify(err)
						if k == 0 {
							normal = ei.Class
							continue
						}
						t++
						wr.Write(extRec{T: t, Ev: "ExtErr", Kind: "map:" + mode, Op: lk.name, Inject: inject, K: k, Fired: fired, Class: ei.Class, Cat: ei.Cat, Normal: normal})
						if !fired {
							break
						}
					}
				}
			}
			// C13 + C18: every enumeration flavour of the committed multi-slab map with the k-th ledger read failing: the failure must
			// surface as an external error, and a call that reports success must have yielded every element
			type enumFn func(m *atree.OrderedMap) (int, error)
			cmpOK := testutils.CompareValue
			hipOK := testutils.GetHashInput
			enums := []struct {
				name string
				f    enumFn
			}{
				{"Enum:Iterate", func(m *atree.OrderedMap) (int, error) {
					n := 0
					err := m.Iterate(cmpOK, hipOK, func(k, v atree.Value) (bool, error) { n++; return true, nil })
					return n, err
				}},
				{"Enum:IterateKeys", func(m *atree.OrderedMap) (int, error) {
					n := 0
					err := m.IterateKeys(cmpOK, hipOK, func(k atree.Value) (bool, error) { n++; return true, nil })
					return n, err
				}},
				{"Enum:IterateValues", func(m *atree.OrderedMap) (int, error) {
					n := 0
					err := m.IterateValues(cmpOK, hipOK, func(v atree.Value) (bool, error) { n++; return true, nil })
					return n, err
				}},
				{"Enum:IterateReadOnly", func(m *atree.OrderedMap) (int, error) {
					n := 0
					err := m.IterateReadOnly(func(k, v atree.Value) (bool, error) { n++; return true, nil })
					return n, err
				}},
				{"Enum:IterateReadOnlyKeys", func(m *atree.OrderedMap) (int, error) {
					n := 0
					err := m.IterateReadOnlyKeys(func(k atree.Value) (bool, error) { n++; return true, nil })
					return n, err
				}},
				{"Enum:IterateReadOnlyValues", func(m *atree.OrderedMap) (int, error) {
					n := 0
					err := m.IterateReadOnlyValues(func(v atree.Value) (bool, error) { n++; return true, nil })
					return n, err
				}},
				{"Enum:Iterator", func(m *atree.OrderedMap) (int, error) {
					it, err := m.Iterator(cmpOK, hipOK)
					if err != nil {
						return 0, err
					}
					n := 0
					for {
						k, _, err := it.Next()
						if err != nil {
							return n, err
						}
						if k == nil {
							return n, nil
						}
						n++
					}
				}},
				{"Enum:ReadOnlyIterator", func(m *atree.OrderedMap) (int, error) {
					it, err := m.ReadOnlyIterator()
					if err != nil {
						return 0, err
					}
					n := 0
					for {
						k, _, err := it.Next()
						if err != nil {
							return n, err
						}
						if k == nil {
							return n, nil
						}
						n++
					}
				}},
			}
			for _, en := range enums {
				for k := 1; k <= 40; k++ {
					ledger := w.Ledger.Clone()
					st := newStorage(ledger)
					ledger.SetReadFaultPlan(k)
					var err error
					got := 0
					m, oerr := atree.NewMapWithRootID(st, rootID, dig)
					if oerr != nil {
						err = oerr
					} else {
						got, err = en.f(m)
					}
					fired := ledger.Reads >= k
					ei := classify(err)
					t++
					wr.Write(extRec{T: t, Ev: "ExtErr", Kind: "map:" + mode, Op: en.name, Inject: "ledger", K: k, Fired: fired, Class: ei.Class, Cat: ei.Cat, Normal: "ok", Got: got, Total: nkeys})
					if !fired {
						break
					}
				}
			}
		}
		// arrays: ledger read failures during Get of a multi-slab array
		w := NewWorld(uint32(T))
		w.Exec(Op{Op: "new_array", New: "a", Ti: 42})
		for i := 0; i < 40; i++ {
			w.Exec(Op{Op: "aapp", H: "a", E: ElemSpec{ID: i + 1, Sz: 60}})
		}
		w.Exec(Op{Op: "commit", Mode: "det", W: 2})
		rootID := w.H["a"].Arr.SlabID()
		for _, idx := range []int{0, 17, 39} {
			for k := 1; k <= 6; k++ {
				ledger := w.Ledger.Clone()
				st := newStorage(ledger)
				ledger.SetReadFaultPlan(k)
				a, err := atree.NewArrayWithRootID(st, rootID)
				if err == nil {
					_, err = a.Get(uint64(idx))
				}
				fired := ledger.Reads >= k
				ei := classify(err)
				t++
				wr.Write(extRec{T: t, Ev: "ExtErr", Kind: "array", Op: fmt.Sprintf("Get(%d)", idx), Inject: "ledger", K: k, Fired: fired, Class: ei.Class, Cat: ei.Cat, Normal: "ok"})
				if !fired {
					break
				}
			}
		}
	}
	wr.Close()
	fmt.Printf("{\"cases\":%d,\"records\":%d}\n", t, wr.n)
}
