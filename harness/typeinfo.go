package main

import (
	"fmt"

	"github.com/fxamacker/cbor/v2"
	"github.com/onflow/atree"
	testutils "github.com/onflow/atree/test_utils"
)

// compTypeInfo is a composite type info encoded under a CBOR tag OUTSIDE atree's reserved range
// (test_utils.CompositeTypeInfo uses tag 246, which is atree's own type-info-reference tag and makes
// registers with several inlined type infos ambiguous to decode - a flaw of the test helper, not of atree).
const compTypeInfoTag = 200

type compTypeInfo struct{ value uint64 }

var _ atree.TypeInfo = compTypeInfo{}

func (i compTypeInfo) Copy() atree.TypeInfo { return i }
func (i compTypeInfo) IsComposite() bool    { return true }
func (i compTypeInfo) Identifier() string   { return fmt.Sprintf("composite(%d)", i.value) }
func (i compTypeInfo) Encode(enc *cbor.StreamEncoder) error {
	if err := enc.EncodeTagHead(compTypeInfoTag); err != nil {
		return err
	}
	return enc.EncodeUint64(i.value)
}

func decodeTypeInfo(dec *cbor.StreamDecoder) (atree.TypeInfo, error) {
	t, err := dec.NextType()
	if err != nil {
		return nil, err
	}
	if t == cbor.TagType {
		tagNum, err := dec.DecodeTagNumber()
		if err != nil {
			return nil, err
		}
		if tagNum != compTypeInfoTag {
			return nil, fmt.Errorf("unexpected type info tag %d", tagNum)
		}
		v, err := dec.DecodeUint64()
		if err != nil {
			return nil, err
		}
		return compTypeInfo{v}, nil
	}
	return testutils.DecodeTypeInfo(dec)
}
