package main

import (
	"bufio"
	"encoding/json"
	"errors"
	"fmt"
	"os"

	"github.com/fxamacker/cbor/v2"
	"github.com/onflow/atree"
	testutils "github.com/onflow/atree/test_utils"
)

func must(err error) {
	if err != nil {
		// the library refused a request the harness considers valid: distinguishable from a defect of the harness itself
		panic(fmt.Sprintf("library call failed: %v", err))
	}
}

func newStorage(l atree.BaseStorage) *atree.PersistentSlabStorage {
	encMode, err := cbor.EncOptions{}.EncMode()
	must(err)
	decMode, err := cbor.DecOptions{}.DecMode()
	must(err)
	return atree.NewPersistentSlabStorage(l, encMode, decMode, testutils.DecodeStorable, decodeTypeInfo)
}

func encMode() cbor.EncMode {
	m, err := cbor.EncOptions{}.EncMode()
	must(err)
	return m
}

func decMode() cbor.DecMode {
	m, err := cbor.DecOptions{}.DecMode()
	must(err)
	return m
}

// ErrInfo is the class (specific error type) and category of an error.
type ErrInfo struct {
	Class string `json:"class"`
	Cat   string `json:"cat"`
}

func classify(err error) ErrInfo {
	if err == nil {
		return ErrInfo{"ok", ""}
	}
	cat := "none"
	var ue *atree.UserError
	var fe *atree.FatalError
	var ee *atree.ExternalError
	switch {
	case errors.As(err, &ue):
		cat = "user"
	case errors.As(err, &fe):
		cat = "fatal"
	case errors.As(err, &ee):
		cat = "external"
	}
	class := "other"
	var e1 *atree.IndexOutOfBoundsError
	var e2 *atree.KeyNotFoundError
	var e3 *atree.CollisionLimitError
	var e4 *atree.SlabIDError
	var e5 *atree.SlabNotFoundError
	var e6 *atree.SliceOutOfBoundsError
	var e7 *atree.InvalidSliceIndexError
	var e8 *atree.ReadOnlyIteratorElementMutationError
	var e9 *atree.DuplicateKeyError
	var e10 *atree.NotValueError
	switch {
	case errors.As(err, &e1):
		class = "IndexOutOfBounds"
	case errors.As(err, &e2):
		class = "KeyNotFound"
	case errors.As(err, &e3):
		class = "CollisionLimit"
	case errors.As(err, &e4):
		class = "SlabIDError"
	case errors.As(err, &e5):
		class = "SlabNotFound"
	case errors.As(err, &e6):
		class = "SliceOutOfBounds"
	case errors.As(err, &e7):
		class = "InvalidSliceIndex"
	case errors.As(err, &e8):
		class = "ReadOnlyIteratorElementMutation"
	case errors.As(err, &e9):
		class = "DuplicateKey"
	case errors.As(err, &e10):
		class = "NotValue"
	case errors.Is(err, errInjected):
		class = "injected"
	}
	return ErrInfo{class, cat}
}

// ndjson writer
type NDWriter struct {
	f *os.File
	w *bufio.Writer
	n int
}

func newNDWriter(path string) *NDWriter {
	f, err := os.Create(path)
	must(err)
	return &NDWriter{f: f, w: bufio.NewWriterSize(f, 1<<20)}
}

func (w *NDWriter) Write(v any) {
	b, err := json.Marshal(v)
	must(err)
	w.w.Write(b)
	w.w.WriteByte('\n')
	w.n++
}

func (w *NDWriter) Close() {
	must(w.w.Flush())
	must(w.f.Close())
}

func readLines(path string, fn func(line []byte)) {
	f, err := os.Open(path)
	must(err)
	defer f.Close()
	sc := bufio.NewScanner(f)
	sc.Buffer(make([]byte, 1<<20), 1<<28)
	for sc.Scan() {
		b := sc.Bytes()
		if len(b) == 0 {
			continue
		}
		fn(b)
	}
	must(sc.Err())
}

func fatalf(format string, a ...any) {
	fmt.Fprintf(os.Stderr, format+"\n", a...)
	os.Exit(2)
}
