#!/usr/bin/env python3
# Regenerates MANIFEST.json from the table below (kept next to the checks so they cannot drift).
import json, os
HERE = os.path.dirname(os.path.abspath(__file__))
TECH = "explicit TLA+ specification model-checked with TLC; TLC-generated histories replayed into the real code; recorded traces validated by TLC against the trace specification"
CHECKS = {
 "C01": dict(engine="array", ref="5 C01, 3.4",
   text="Layer A (ArraySeq.tla: the array as a plain sequence) and layer C (ArrayTree.tla: the slab-tree algorithm transcribed over element sizes) are model-checked together: in every reachable shape the tree flattens to the sequence, both routing procedures agree, reads agree. Every transition of that state graph (every insert/set/remove/get/pop position, including out-of-range requests) and TLC-simulated grow/churn/shrink walks at several slab sizes are replayed into the real Array; every recorded call must be explained by the sequence model (returned / previous element, count, type, root id, error class) and the projected slab forest must flatten to the model sequence.",
   note="bounded: all shapes up to 5 (quick) / 7 (thorough) elements over 4 value sizes at slab 256; walks of 200-900 operations at slab 256/257/512/1024; elements are id-carrying strings of exact encoded size"),
 "C02": dict(engine="map", ref="5 C02, 3.5",
   text="MapDict.tla (dictionary with a caller-chosen 4-level digest assignment) and MapTree.tla (element-level algorithm: sorted digests, single -> inline group -> external group -> collapse) are model-checked together for EVERY digest assignment over {0,1}^4 of 3 keys: lookups, enumeration order and refusals of the structure equal the dictionary's. Every transition of that graph and TLC-simulated grow/churn/shrink walks over 24-60 keys (spread and clustered digests, several slab sizes, so that slabs split, merge and promote in the real code) are replayed into the real OrderedMap through a table-driven DigesterBuilder; each call must be explained by the dictionary model and the observed slab forest must hold exactly the dictionary's pairs.",
   note="slab-level map algorithm (split/merge of map slabs) is not transcribed in layer C: slab-level behaviour is judged by layers A and B on the real traces only; values/keys are id-carrying strings"),
 "C03": dict(engine="persist", ref="5 C03, 3.8",
   text="Storage level: SlabStorage.tla closure with BaseOnlyInCommit, TempNeverWritten, CommitOK, DropReverts; explored histories replayed with commit/recreate/retrieve events strict. Container level: TLC explores array histories with every placement of commit / drop-cache / crash between operations (all shapes up to 3-4 elements) and simulates array and map walks with such events; in the recorded traces, after every successful commit a brand-new storage over a copy of the ledger must reconstruct exactly the model content from the registers alone (Durable), the ledger call counter must not move outside commits (NoLedgerWrite), no call may carry the zero address, and a crash must restore the last committed content (CrashRestores).",
   note="crash = abandon the storage object and reopen every root by id over the ledger; crash points are between operations and before/after commits (not inside a commit); bounded as stated"),
 "C04": dict(engine="persist", ref="5 C04",
   text="DetOrder is an invariant of SlabStorage.tla (closure) and of every recorded commit (storage and container traces): deterministic commits issue calls in strictly ascending (owner, index). Multi-run acceptor (MultiRunTrace.tla): each TLC-simulated history is executed with 1/2/7/64 workers, both commit kinds, in fresh processes with different GOMAXPROCS; all runs of a history must end with byte-identical registers under identical identifiers.",
   note="goroutine interleavings of the encoder workers are explored exhaustively only in the CommitConc model of C16; here they vary by worker count / GOMAXPROCS / process"),
 "C05": dict(engine="array", ref="5 C05, 3.1, 3.6",
   text="Thresholds.tla: the arithmetic lemmas behind the size band (two maximal elements fit, an index slab that does not underflow has two children, merge bound, 16-bit header sizes) are checked by TLC for every legal slab size 256..32768. ArrayTree.tla preserves well-formedness in every reachable shape. TreeInv.tla (size band, element limits, root index slab >= 2 children, header copies, count sums, sibling links) is evaluated by TLC on the forest projected from the real slabs after EVERY replayed operation; content is adopted so only structural facts are judged.",
   note="map half of the property is covered by the map engine when present; projection reads slab fields through verif-tagged exports; bounded as C01"),
 "C06": dict(engine="persist+nested", ref="5 C06",
   text="Bookkeeping half (model level): TreeInv recomputes on the forest projected after EVERY operation the reported size of every slab as prefix(kind, root?, inlined?) + element sizes, element-list and group sizes, header copies and counts (SizesAgree / AllValid) for TLC-explored array histories, map histories under all digest assignments, nested walks, and for bulk-built / copied containers over every element-size stream. Byte half (measured): at every commit the harness splits each raw register (2-byte head, root extra-data item, shared inlined-extra-data item, body) and logs the body length, the sibling-link flag, the size reported by the slab decoded from the register and by the in-memory slab; EncodedLenRelation requires reported = body (+16 for a non-root data slab without sibling link), '<=' when the shared section holds compact-map data, decoded size = in-memory size = size in the projected forest.",
   note="the byte split is done by the harness with the CBOR stream decoder, independent of the library's own serialization verifier; inlined children are covered through the sizes of their parents (element size = child size), not encoded separately"),
 "C07": dict(engine="persist", ref="5 C07",
   text="At every commit point of TLC-explored array histories (all shapes up to 3-4 elements x persistence events) and of simulated array / map walks, every register is decoded by a brand-new storage and projected; the cold forest (elements in order, sizes, counts, type info, seeds, sibling links, header copies, collision groups) must EQUAL the forest of the in-memory slabs that produced the registers (ColdEqualsWarm) and satisfy TreeInv.",
   note="ReencodesExactly (EncodeSlab(DecodeSlab(raw)) == raw) and FlagsTruthful (root-of-a-value, holds-references, size-limited flags read from the raw bytes through the public functions equal the values the specification derives from the projected forest) are evaluated on every register at every commit, also for nested walks with inlined arrays / maps / compact maps / wrapped values / large keys; the compact-map exception is respected by comparing maps as key-value sets in nested traces"),
 "C08": dict(engine="persist", ref="5 C08",
   text="Commit, DropCache and reopen are stuttering steps of the abstract model; the multi-run acceptor executes each TLC-simulated history (arrays and maps, including reads and rejected requests) under five schedules from 'commit only at the end' to 'commit after every operation', with cache drops and reopenings at random points, and requires identical per-operation results, identical final content and byte-identical final registers.",
   note="only root handles are kept across cache drops (handle-tree discipline, DESIGN 4.2); no composite type infos here so registers must be byte-identical"),
 "C09": dict(engine="nested", ref="5 C09",
   text="After every operation of TLC-explored array histories, map histories under all digest assignments, clustered-digest map walks and simulated nested-container walks (the harness disposes of or keeps, as the TLC history dictates, every value the library hands back, deep-disposing inlined children) the set of slab identifiers in the storage view (write set over ledger) must equal the set reachable from the roots the caller holds (NoLeak).",
   note="reachability is computed by the harness's own projection through verif-tagged slab descriptions, not by CheckStorageHealth (which is itself under test in C20)"),
 "C10": dict(engine="nested", ref="5 C10, 3.7",
   text="Nested.tla models a heap of up to 6-8 arrays and maps (depth 3, wrapped / unwrapped, simple and composite types), live handles under the handle-tree discipline, mutation through any live handle, handles obtained on insertion, by lookup and by mutable iteration, parent restructuring, children crossing the inline limits both ways, detach / keep / dispose / re-attach, commit / cache drop / crash. TLC-simulated walks and a scripted family for same-typed composite siblings are replayed into the real code; NestedTrace.tla requires after every step that everything read through every root expands to the model forest (ReadsThrough), that a brand-new storage reads the same forest after each commit (Persisted), that every container at every depth satisfies TreeInv (AllValid) and is inlined exactly when it fits (InlineRule).",
   note="verdicts only inside the handle-tree discipline (DESIGN 4.2, 9 F3); generated by simulation, not exhaustive; found and fixed two genuine defects (known_findings.json)"),
 "C11": dict(engine="nested", ref="5 C11",
   text="Same walks as C10: they remove / overwrite children that the caller keeps, mutate the detached child through its old handle, re-attach it elsewhere and mutate the former parent in between. Verdict predicates of NestedTrace.tla: ReadsThrough (the former parent follows the model, which changes only the detached container), OtherRootsUntouched (the projected slabs of every other root are bit-identical before and after a mutation of a detached container), RootsStandalone (a kept container is an independently stored root value with the same value id), Persisted (it reloads by its identifier).",
   note="simulation, not exhaustive; handle-tree discipline as in C10"),
 "C12": dict(engine="map", ref="5 C12",
   text="TLC explores, for every digest assignment over {0,1}^4 of 3 keys and collision limits 0, 1, 2, 255, all insert/update/remove histories to closure, checking that the element algorithm refuses exactly the inserts the layer-A rule refuses and changes nothing then. Every explored transition is replayed into the real OrderedMap with a table-driven digester and the limit set through the verif hook; dictionary semantics, refusal rule, unchanged-on-refusal and TreeInv (sorted unique digests per level, group sizes, level-1 spill, element limit) are validated after every step; clustered-digest walks over 24 keys add spill/collapse across slab boundaries.",
   note="exhaustive for 3 keys x {0,1}^4 in thorough tier, sampled in quick; limit 255 with 257 keys is not enumerated"),
 "C13": dict(engine="array+map", ref="5 C13",
   text="Layer A defines the canonical enumeration order (arrays: index order; maps: ascending digest vector, insertion order among full collisions - MapDict.Canonical). At the end of every TLC-explored history (array: every shape up to 4-6 elements; map: every digest assignment over {0,1}^4 of 3 keys, sampled) and of simulated growth walks (multi-level trees, collision groups across slabs) the harness runs every enumeration flavour (read-only, mutable, iterator objects, keys-only, values-only, loaded-values, Get of every index), all range bounds incl. invalid ones, a mutable iteration that overwrites the current element at a random subset of positions with sizes that move slabs, and after a commit loaded-value iteration in brand-new storages with every subset (<= 5 other slabs) or random subsets of slabs loaded. ArrayTrace / MapTrace require each to equal the model order (IterOK), ranges to be the slice or the right error class, partial loads to be in-order subsequences (PartialOK); reverse-order bulk pops are ordinary history operations checked by layer A.",
   note="mutation of a nested container during mutable iteration is exercised by the nested engine (n.iter), not here; ReadOnlyIteratorElementMutationError is not a verdict"),
 "C14": dict(engine="storage", ref="5 C14, 3.2",
   text="SlabStorage.tla splits both commits into one action per ledger call, each of which may fail; TLC explores every fault position to closure over a 3-identifier universe and proves CommitFailedLosesNothing / CommitOK (ledger = view at commit start) / ViewStable. Every explored history with a failing call is replayed with the same fault placement into the real PersistentSlabStorage and the recorded per-call trace is validated by TLC (commit events strict). Random histories with faults and retries on a larger universe are validated the same way.",
   note="LedgerSim failing calls have no effect; slab payloads are opaque versions; bounded: 3-4 identifiers, 2-3 versions, 1 fault per model history (up to 3 in random drivers); container-level fault histories are covered by the persist engine"),
 "C15": dict(engine="storage", ref="5 C15, 3.2",
   text="SlabStorage.tla is the write-back overlay (deltas / cache / ledger) with one action per exported method; TLC computes the closure and checks ReadYourWrites, CacheCoherent, CommitOK, DropReverts, ViewStable. Every transition of the state graph is replayed into the real storage (spec -> impl) and every recorded event, with the full observed deltas/cache/ledger state, must be explained by the specification's action (impl -> spec, all events strict).",
   note="bounded: closure over 3 identifiers (4 in thorough, sampled edges) x 2 versions x 1 fault; random driver 6-8 identifiers x 3 versions; slab payloads are opaque versions carried by real array slabs"),
 "C17": dict(engine="array+map", ref="5 C17",
   text="ArrayTree.tla transcribes NewArrayFromBatchData (TBatch). At the end of every TLC-explored history - including an append-only configuration that enumerates EVERY element-size stream up to 6-7 elements over sizes on the inline / half-slab edges, and growth-only map streams with values on the element-limit edge - and of simulated growth walks, the harness bulk-builds a new container from the source's iterator (maps: with the source's seed) and copies it with CopyNonRefSimple. ArrayTrace / MapTrace require equal content and order, a structure valid by TreeInv, a different identity, the same seed, CanCopyNonRefSimple true exactly for single-slab containers of plain values (and then success, else refusal), and, after mutating and disposing of the result, an unaffected source and no leaked slab (SourceUnaffected). BytesTrace covers byte slice <-> byte array for every length around the fast-path boundary x five size estimates x two element widths.",
   note="'valid exactly as if built by individual operations' is taken as: satisfies the same validity predicate (TreeInv), not: has the same shape; inlined sources of copies are exercised only through the nested engine"),
 "C18": dict(engine="array+map", ref="5 C18",
   text="Rejected requests are actions of layer A with UNCHANGED state. Every TLC-explored array history (all shapes up to 4-6 elements) contains out-of-range Get/Set/Insert/Remove at count, count+1 and beyond 2^32 with values of every size (incl. over-limit values that would allocate a slab), every map history lookups / removals of absent keys and inserts refused by the collision limit (limits 0, 1, 255); the trace specifications require the exact error class AND category and that the projected slabs (hash with raw digests), the identifiers in storage, the write-set size and the ledger call counter equal those before the request (NoTraceOfRejected). Multi-run: the history with and without its rejected requests commits byte-identical registers. ExtErrTrace: failures injected into the ledger read, the key comparator and the hash-input provider at every call made during Get / Has / Remove / iteration start must surface as external errors.",
   note="undefined identifiers for Store/Remove are covered by the storage engine (C15); invalid ranges by the C13 probes"),
 "C20": dict(engine="health", ref="5 C20, 3.8",
   text="HealthOps.tla defines the healthy predicate over slab reference graphs (every reference resolves, single referrer, same owner, everything reachable from a root, expected root count) and the all-child-references query. Health.tla enumerates EVERY healthy labelled forest over 4 (quick) / 5 (thorough) slabs with two owner patterns and every single corruption of the four kinds (deletion as pending delete, committed delete or missing register), and TLC proves the sanity lemmas (each generated forest healthy, each corrupted graph unhealthy). Every case is built in a real storage, fully loaded, and CheckStorageHealth / GetAllChildReferences must return the Healthy verdict, the true roots and exactly the resolvable / broken references (HealthTrace.tla). The same corruptions are applied to the committed storages of TLC-simulated nested-container walks.",
   note="GetAllChildReferences is not called on slabs from which a reference cycle is reachable (it does not terminate there; cycles only arise from the 'second reference from a descendant' corruption); foreign-owner corruption only in the enumerated cases; found and fixed one genuine defect (known_findings.json)"),
}
NOT_APPLICABLE = [
 {"property_id": "C19", "reason": "no state machine: byte-level robustness of decoders against arbitrary input is outside what a TLA+ specification and trace conformance can decide (DESIGN.md section 6)"},
]
ALL = ["C%02d" % i for i in range(1, 21)]
def main():
    checks = []
    for pid in sorted(CHECKS):
        c = CHECKS[pid]
        checks.append({
            "property_id": pid,
            "quick_cmd": "./check %s --tier quick" % pid,
            "thorough_cmd": "./check %s --tier thorough" % pid,
            "evidence_file": "evidence/%s.json" % pid,
            "replay_cmd_template": "./check %s --replay {path}" % pid,
            "engine": c["engine"],
            "level_claimed": {"category": c.get("category", "model_checking"), "text": c["text"], "design_ref": "DESIGN.md section " + c["ref"]},
            "level_note": c["note"],
            "technique": c.get("technique", TECH),
        })
    na = list(NOT_APPLICABLE)
    for pid in ALL:
        if pid not in CHECKS and pid not in [x["property_id"] for x in na]:
            na.append({"property_id": pid, "reason": "check not built yet in this revision of the framework (planned, see DESIGN.md section 11); not claimed until it runs clean on the unchanged tree"})
    m = {
        "version": 1,
        "setup_cmd": "./setup.sh",
        "hooks": {
            "guard": "verif",
            "enable": "go build -tags verif (harness module /verif/harness, replace github.com/onflow/atree => /repo)",
            "baseline_off_cmd": "cd /repo && GOFLAGS=-mod=mod GOPROXY=off go test -vet=off -count=1 -timeout 25m ./...",
            "source_commits": ["9494b29"],
            "add_only": True,
        },
        "engines": [
            {"name": "array", "path": "spec/ArraySeq.tla spec/ArrayTree.tla spec/TreeInv.tla spec/Thresholds.tla spec/MC_Array.tla spec/ArrayTrace.tla harness/world.go harness/ops.go harness/array_engine.go", "serves_properties": ["C01", "C05", "C06", "C09", "C13", "C17", "C18"], "kind_free_text": "TLC state graph + simulated walks of the array algorithm replayed into the real Array; traces validated against sequence semantics and TreeInv"},
            {"name": "map", "path": "spec/MapDict.tla spec/MapTree.tla spec/MC_Map.tla spec/MC_MapWalk.tla spec/MapTrace.tla harness/map_engine.go harness/digest.go", "serves_properties": ["C02", "C05", "C06", "C09", "C12", "C13", "C17", "C18"], "kind_free_text": "all digest assignments x histories (TLC) + simulated walks replayed into the real OrderedMap with a table-driven digester"},
            {"name": "nested", "path": "spec/Nested.tla spec/NestedTrace.tla spec/TreeInv.tla harness/nested_engine.go", "serves_properties": ["C01", "C09", "C10", "C11"], "kind_free_text": "TLC-simulated walks of a heap of nested containers with handles, replayed and validated against the expansion of the heap"},
            {"name": "health", "path": "spec/HealthOps.tla spec/Health.tla spec/HealthTrace.tla harness/health_engine.go", "serves_properties": ["C20"], "kind_free_text": "all healthy forests x all single corruptions built in real storages; CheckStorageHealth judged by the Healthy predicate"},
            {"name": "persist", "path": "spec/ArrayTrace.tla spec/MapTrace.tla spec/MultiRunTrace.tla harness/multirun.go", "serves_properties": ["C03", "C04", "C07", "C08", "C14"], "kind_free_text": "commit / drop-cache / crash events inside container histories with cold reads of the ledger; multi-run acceptor"},
            {"name": "storage", "path": "spec/SlabStorage.tla spec/MC_SlabStorage.tla spec/SlabStorageTrace.tla harness/storage_engine.go", "serves_properties": ["C03", "C04", "C14", "C15"], "kind_free_text": "TLC closure + edge replay + trace validation of PersistentSlabStorage"},
        ],
        "checks": checks,
        "not_applicable": sorted(na, key=lambda x: x["property_id"]),
        "notes": "Every check rebuilds the harness from /repo's working tree with -tags verif in a scratch directory under /tmp (removed at exit). VERIF_SEED seeds sampling and drivers. Exit 2 = inconclusive (tool/build failure), never a verdict.",
    }
    json.dump(m, open(os.path.join(HERE, "MANIFEST.json"), "w"), indent=1)
if __name__ == "__main__":
    main()
