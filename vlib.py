# Orchestration library for the atree model-based verification checks.
# Standard library only.  Every check: scratch dir under /tmp (removed at exit), rebuild the
# harness from /repo's working tree with the verif tag, run TLC on the bounded model, let the
# harness execute TLC-generated and driver histories against the real code, validate the
# recorded traces with TLC against the trace specification, classify, write evidence.
import atexit, concurrent.futures, hashlib, json, os, re, shutil, subprocess, sys, tempfile, time

VERIF = os.path.dirname(os.path.abspath(__file__))
REPO = os.environ.get("VERIF_REPO", "/repo")
SPEC = os.path.join(VERIF, "spec")
HARNESS = os.path.join(VERIF, "harness")
JAR = "/opt/veriftools/tla/tla2tools.jar:/opt/veriftools/tla/CommunityModules-deps.jar"
NCPU = os.cpu_count() or 4

GOENV = dict(os.environ, GOFLAGS="-mod=mod", GOPROXY="off", GONOSUMDB="*", GONOSUMCHECK="1", GOFLAGS_EXTRA="")
GOENV.pop("GOFLAGS_EXTRA")

_scratch = None


def scratch():
    global _scratch
    if _scratch is None:
        _scratch = tempfile.mkdtemp(prefix="verif-", dir=os.environ.get("VERIF_TMP", "/tmp"))
        if not os.environ.get("VERIF_KEEP"):
            atexit.register(lambda: shutil.rmtree(_scratch, ignore_errors=True))
    return _scratch


def log(*a):
    print(*a, file=sys.stderr, flush=True)


class Inconclusive(Exception):
    """Anything that is not a real-code behaviour: tool failure, timeout, build failure."""


def build_harness(race=False):
    """go build -tags verif of /verif/harness against /repo's current working tree."""
    out = os.path.join(scratch(), "atreeh-race" if race else "atreeh")
    if os.path.exists(out):
        return out
    src = os.path.join(scratch(), "hsrc")
    if not os.path.exists(src):
        shutil.copytree(HARNESS, src, ignore=shutil.ignore_patterns("atreeh*"))
        gomod = open(os.path.join(src, "go.mod")).read()
        gomod = re.sub(r"replace github.com/onflow/atree => .*", "replace github.com/onflow/atree => " + REPO, gomod)
        open(os.path.join(src, "go.mod"), "w").write(gomod)
        shutil.copy(os.path.join(REPO, "go.sum"), os.path.join(src, "go.sum"))
    cmd = ["go", "build", "-tags", "verif"]
    if race:
        cmd.append("-race")
    cmd += ["-o", out, "."]
    t0 = time.time()
    p = subprocess.run(cmd, cwd=src, env=GOENV, capture_output=True, text=True)
    if p.returncode != 0:
        raise Inconclusive("harness build failed:\n" + p.stdout + p.stderr)
    log("built harness%s in %.1fs" % (" (race)" if race else "", time.time() - t0))
    return out


def run_harness(args, timeout=1800, race=False, env=None, check=True):
    exe = build_harness(race)
    e = dict(os.environ)
    if env:
        e.update(env)
    p = subprocess.run([exe] + args, capture_output=True, text=True, timeout=timeout, env=e)
    if check and p.returncode != 0:
        raise Inconclusive("harness %s failed (%d):\n%s\n%s" % (args[0], p.returncode, p.stdout[-2000:], p.stderr[-4000:]))
    return p


def last_json(text):
    for line in reversed(text.strip().split("\n")):
        line = line.strip()
        if line.startswith("{"):
            try:
                return json.loads(line)
            except Exception:
                pass
    return {}


def tlc_dir(name, extra_files=None):
    """A fresh directory holding a copy of every spec file."""
    d = os.path.join(scratch(), name)
    os.makedirs(d, exist_ok=True)
    for f in os.listdir(SPEC):
        if f.endswith(".tla") or f.endswith(".cfg"):
            shutil.copy(os.path.join(SPEC, f), os.path.join(d, f))
    for k, v in (extra_files or {}).items():
        open(os.path.join(d, k), "w").write(v)
    return d


def java_cmd(heap="4g", gcthreads=None, deque=False):
    # TLC creates a tlc-<n> directory under java.io.tmpdir for every run: keep them inside the scratch directory (removed at exit)
    jt = os.path.join(scratch(), "jtmp")
    os.makedirs(jt, exist_ok=True)
    cmd = ["java", "-XX:+UseParallelGC", "-Xmx" + heap, "-Xss64m", "-Djava.io.tmpdir=" + jt]
    if gcthreads:
        cmd.append("-XX:ParallelGCThreads=%d" % gcthreads)
    if deque:
        cmd.append("-Dtlc2.tool.queue.IStateQueue=StateDeque")
    return cmd + ["-cp", JAR, "tlc2.TLC"]


class TLCResult:
    def __init__(self, out, rc, wall):
        self.out, self.rc, self.wall = out, rc, wall
        m = re.search(r"(\d+) states generated, (\d+) distinct states found", out)
        self.generated = int(m.group(1)) if m else 0
        self.distinct = int(m.group(2)) if m else 0
        m = re.search(r"depth of the complete state graph search is (\d+)", out)
        self.depth = int(m.group(1)) if m else 0
        self.ok = "Model checking completed. No error has been found." in out or \
                  ("Finished in" in out and "Error:" not in out and rc == 0)
        self.errors = re.findall(r"^Error: (.*)$", out, re.M)
        self.invariant = None
        m = re.search(r"Error: Invariant (\S+) is violated", out)
        if m:
            self.invariant = m.group(1)
        m = re.search(r"Error: Action property (\S+) is violated", out)
        if m:
            self.invariant = m.group(1)
        m = re.search(r'<<"REJECTED_AT", (\d+), (\d+), "([^"]*)">>', out)
        self.rejected_at = (int(m.group(1)), int(m.group(2)), m.group(3)) if m else None


def run_tlc(d, module, cfg, workers=NCPU, timeout=3600, heap="8g", extra=None, stdout_file=None, deque=False):
    # single-worker runs (trace validation: many JVMs side by side) must not each start one GC thread per core
    cmd = java_cmd(heap, gcthreads=2 if workers == 1 else None, deque=deque) + ["-workers", str(workers), "-metadir", os.path.join(d, "meta-%s" % cfg.replace(".cfg", "")),
                            "-config", cfg] + (extra or []) + [module]
    t0 = time.time()
    try:
        if stdout_file:
            with open(stdout_file, "w") as f:
                p = subprocess.run(cmd, cwd=d, stdout=f, stderr=subprocess.STDOUT, timeout=timeout)
            # only the non-emitted lines matter for result parsing
            out = subprocess.run(["grep", "-v", '^"', stdout_file], capture_output=True, text=True).stdout
        else:
            p = subprocess.run(cmd, cwd=d, capture_output=True, text=True, timeout=timeout)
            out = p.stdout + p.stderr
    except subprocess.TimeoutExpired:
        raise Inconclusive("TLC timeout after %ds: %s %s" % (timeout, module, cfg))
    r = TLCResult(out, p.returncode, time.time() - t0)
    shutil.rmtree(os.path.join(d, "meta-%s" % cfg.replace(".cfg", "")), ignore_errors=True)
    return r


def emitted_lines(stdout_file):
    """Lines printed by PrintT(ToJson(..)): TLA+ string literals holding JSON."""
    with open(stdout_file) as f:
        for line in f:
            if line.startswith('"'):
                try:
                    yield json.loads(line)
                except Exception:
                    continue


def model_check(module, cfg, name, workers=NCPU, timeout=3600, emit=False, consts=None, heap="8g"):
    """Run TLC on a bounded model configuration.  consts: textual replacements applied to the cfg."""
    d = tlc_dir(name)
    if consts:
        text = open(os.path.join(d, cfg)).read()
        for k, v in consts.items():
            text, n = re.subn(r"(?m)^(\s*%s\s*=\s*).*$" % re.escape(k), lambda m: m.group(1) + str(v), text)
            if n == 0:
                raise Inconclusive("constant %s not in %s" % (k, cfg))
        open(os.path.join(d, cfg), "w").write(text)
    so = os.path.join(d, "stdout.txt") if emit else None
    r = run_tlc(d, module, cfg, workers=workers, timeout=timeout, stdout_file=so, heap=heap)
    if not r.ok:
        raise Inconclusive("model checking of %s/%s failed (this is a defect of the MODEL, not a verdict on the code):\n%s"
                           % (module, cfg, r.out[-3000:]))
    log("model %s %s: %d distinct / %d generated states, depth %d, %.1fs" % (module, cfg, r.distinct, r.generated, r.depth, r.wall))
    return r, so


def _validate_one(args):
    d, module, cfg, timeout = args
    try:
        r = run_tlc(d, module, cfg, workers=1, timeout=timeout, heap="2500m")
    except Inconclusive as e:
        return {"dir": d, "error": str(e)}
    res = {"dir": d, "ok": r.ok and r.rejected_at is None, "records": max(r.distinct - 1, 0), "wall": r.wall,
           "invariant": r.invariant, "rejected_at": r.rejected_at, "errors": r.errors}
    if not res["ok"] and r.invariant is None and r.rejected_at is None:
        res["error"] = "TLC failed without a verdict:\n" + r.out[-3000:]
    res["drift"] = len(re.findall(r'<<"DRIFT_AT"', r.out))
    if r.invariant:
        # position of the violating record: value of l in the last printed state minus one
        ls = re.findall(r"/\\ l = (\d+)", r.out) or re.findall(r"(?m)^l = (\d+)", r.out)
        if ls:
            res["record"] = int(ls[-1]) - 1
        elif r.rejected_at:
            # single-variable trace specs print no conjunction list; the diameter is the value of l in the violating state
            res["record"] = r.rejected_at[0] - 1
    elif r.rejected_at:
        res["record"] = r.rejected_at[0]
    if res.get("ok") and "error" not in res and not os.environ.get("VERIF_KEEP"):
        # an accepted trace is not needed again: free the disk at once (thorough tiers write tens of GB of traces)
        shutil.rmtree(d, ignore_errors=True)
    return res


_TKEY = re.compile(rb'^\{"(?:t|T)":(\d+)')
MAX_TRACE_BYTES = int(os.environ.get("VERIF_MAX_TRACE_MB", "80")) * 1024 * 1024


def split_big_traces(trace_files):
    """TLC loads a whole trace file into memory (ndJsonDeserialize): files above MAX_TRACE_BYTES are cut into several files at
    history boundaries (the records of one history carry the same t and stay together)."""
    out = []
    for idx, tf in enumerate(trace_files):
        if not os.path.exists(tf) or os.path.getsize(tf) <= MAX_TRACE_BYTES:
            out.append((tf, idx))
            continue
        k, size, cur_t, fh = 0, 0, None, None
        with open(tf, "rb") as f:
            for line in f:
                m = _TKEY.match(line)
                t = m.group(1) if m else cur_t
                if fh is None or (size > MAX_TRACE_BYTES and t != cur_t and m):
                    if fh:
                        fh.close()
                    part = "%s.cut%d" % (tf, k)
                    out.append((part, idx))
                    fh = open(part, "wb")
                    k, size = k + 1, 0
                cur_t = t
                fh.write(line)
                size += len(line)
        if fh:
            fh.close()
        os.remove(tf)
    return out


def validate_traces(trace_files, module, cfg, name, timeout=3600, consts=None):
    """Validate each ndjson trace file with its own TLC process (parallel)."""
    jobs = []
    srcs = []
    for k, (tf, src) in enumerate(split_big_traces(trace_files)):
        if os.path.getsize(tf) == 0:
            continue
        srcs.append(src)
        d = tlc_dir("%s-%d" % (name, k))
        os.replace(tf, os.path.join(d, "trace.ndjson"))
        if consts:
            text = open(os.path.join(d, cfg)).read()
            for kk, v in consts.items():
                text = re.sub(r"(?m)^(\s*%s\s*=\s*).*$" % re.escape(kk), lambda m: m.group(1) + str(v), text)
            open(os.path.join(d, cfg), "w").write(text)
        jobs.append((d, module, cfg, timeout))
    results = []
    with concurrent.futures.ThreadPoolExecutor(max_workers=max(1, int(os.environ.get("VERIF_JOBS", NCPU - 2)))) as ex:
        for r, src in zip(ex.map(_validate_one, jobs), srcs):
            r["part"] = src       # index of the trace file (= input part) this result belongs to
            results.append(r)
    return results


def read_records(trace_dir, lo, hi):
    out = []
    with open(os.path.join(trace_dir, "trace.ndjson")) as f:
        for i, line in enumerate(f, 1):
            if i < lo:
                continue
            if i > hi:
                break
            out.append(json.loads(line))
    return out


def trace_of(trace_dir, t):
    out = []
    with open(os.path.join(trace_dir, "trace.ndjson")) as f:
        for line in f:
            r = json.loads(line)
            if r.get("t") == t:
                out.append(r)
            elif out:
                break
    return out


def stable_hash(s):
    return int(hashlib.sha256(s.encode()).hexdigest()[:12], 16)


# ---------------------------------------------------------------------------
# known findings

def load_known():
    p = os.path.join(VERIF, "known_findings.json")
    if not os.path.exists(p):
        return []
    return json.load(open(p)).get("findings", [])


def known_match(prop, signature):
    for f in load_known():
        if f.get("property") == prop and f.get("status") == "known" and f.get("key") == signature:
            return f
    return None


# ---------------------------------------------------------------------------
# evidence

def write_evidence(prop, tier, seed, level, coverage, wall, violations, assumptions):
    evdir = os.environ.get("VERIF_EVIDENCE_DIR") or os.path.join(VERIF, "evidence")
    os.makedirs(evdir, exist_ok=True)
    ev = {"property_id": prop, "tier": tier, "seed": seed, "level": level, "coverage": coverage,
          "assumptions": assumptions, "wall_s": round(wall, 1), "violations": violations}
    tmp = os.path.join(evdir, prop + ".json.tmp")
    json.dump(ev, open(tmp, "w"), indent=1, sort_keys=True)
    os.replace(tmp, os.path.join(evdir, prop + ".json"))


def write_replay(prop, payload):
    rdir = os.environ.get("VERIF_REPLAYS_DIR") or os.path.join(VERIF, "replays")
    os.makedirs(rdir, exist_ok=True)
    body = json.dumps(payload, indent=1, sort_keys=True)
    name = "%s-%s.json" % (prop, hashlib.sha256(body.encode()).hexdigest()[:10])
    path = os.path.join(rdir, name)
    open(path, "w").write(body)
    return path
